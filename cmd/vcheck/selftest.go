package main

import (
	"fmt"
)

func cmdSelftest(args []string) int {
	fmt.Println("selftest: not built yet")
	return 2
}
