package main

import (
	"encoding/json"
	"fmt"
	"sort"
	"strconv"
	"strings"
	"sync"
	"time"
)

// cmdSelftest is the determinism self-test (DESIGN.md 2.10): for every property a few runs are executed in many
// fresh processes at GOMAXPROCS 1, 4 and 16 with the full schedule trace enabled; the digests of (trace, tape,
// notes, outcome) must all be equal, and no unregistered goroutine may have reached a scheduling point.
func cmdSelftest(args []string) int {
	procs, seeds := 30, 3
	var only []string
	for i := 0; i < len(args); i++ {
		switch args[i] {
		case "--procs":
			i++
			procs, _ = strconv.Atoi(args[i])
		case "--seeds":
			i++
			seeds, _ = strconv.Atoi(args[i])
		default:
			only = append(only, args[i])
		}
	}
	bins := ensureBuild(false)
	wo := runWorker(bins.plain, Job{Mode: "list"}, 60*time.Second)
	var list []struct {
		Prop    string `json:"prop"`
		Variant string `json:"variant"`
	}
	for _, l := range wo.lines["LIST"] {
		_ = json.Unmarshal(l, &list)
	}
	sort.Slice(list, func(i, j int) bool { return list[i].Prop+list[i].Variant < list[j].Prop+list[j].Variant })
	bad := 0
	total := 0
	t0 := time.Now()
	for _, w := range list {
		if strings.HasPrefix(w.Prop, "SELF") {
			continue
		}
		if len(only) > 0 {
			ok := false
			for _, o := range only {
				if o == w.Prop {
					ok = true
				}
			}
			if !ok {
				continue
			}
		}
		for s := 0; s < seeds; s++ {
			seed := uint64(1000003*(s+1)) + uint64(len(w.Variant))*7919
			ord := s * 37
			type res struct {
				digest string
				ext    int
				gmp    string
				raw    string
			}
			results := make([]res, procs)
			var wg sync.WaitGroup
			sem := make(chan struct{}, 16)
			for p := 0; p < procs; p++ {
				p := p
				wg.Add(1)
				sem <- struct{}{}
				go func() {
					defer wg.Done()
					defer func() { <-sem }()
					gmp := []string{"1", "4", "16"}[p%3]
					// every other process first executes a few unrelated runs: a run must not depend on what the process did before
					warm := 0
					if p%2 == 1 {
						warm = 1 + p%5
					}
					out := runWorkerGMP(bins.plain, Job{Mode: "det", Prop: w.Prop, Tier: "quick", Variants: []string{w.Variant}, Base: seed, Start: ord, Count: warm}, gmp)
					r := res{gmp: gmp}
					for _, l := range out.lines["DET"] {
						var d struct {
							Digest string `json:"digest"`
							Ext    int    `json:"ext"`
						}
						if json.Unmarshal(l, &d) == nil {
							r.digest, r.ext, r.raw = d.Digest, d.Ext, string(l)
						}
					}
					results[p] = r
				}()
			}
			wg.Wait()
			total++
			distinct := map[string]int{}
			ext := 0
			for _, r := range results {
				distinct[r.digest]++
				ext += r.ext
			}
			if len(distinct) != 1 || ext != 0 {
				bad++
				fmt.Printf("NONDETERMINISTIC %s/%s seed=%d ord=%d: %d distinct digests over %d processes (ext goroutines: %d)\n", w.Prop, w.Variant, seed, ord, len(distinct), procs, ext)
				shown := map[string]bool{}
				for _, r := range results {
					if !shown[r.digest] {
						shown[r.digest] = true
						fmt.Printf("   GOMAXPROCS=%s %s\n", r.gmp, r.raw)
					}
				}
			} else {
				fmt.Printf("ok %s/%s seed=%d ord=%d: %d processes (GOMAXPROCS 1/4/16) identical: %s\n", w.Prop, w.Variant, seed, ord, procs, results[0].raw)
			}
		}
	}
	fmt.Printf("selftest: %d run(s) x %d processes checked in %.0fs, %d nondeterministic\n", total, procs, time.Since(t0).Seconds(), bad)
	if bad > 0 {
		return 2
	}
	return 0
}
