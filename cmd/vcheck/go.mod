module vcheck

go 1.26
