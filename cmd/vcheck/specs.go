package main

var commonReal = []string{"vivid (all packages, rewritten only by the general instrumentation rules of DESIGN.md 2.1)", "github.com/reugn/go-quartz", "golang.org/x/sync/singleflight", "Go runtime channels and timers (on the synctest bubble clock)"}
var commonStubs = []string{"goroutine scheduling (simrt: seeded cooperative scheduler)", "wall clock (testing/synctest bubble clock + per-node skew)", "uuid and math/rand (seeded)", "Go map iteration order (sorted, optionally rotated by a tape draw)"}
var commonAssume = []string{"testing/synctest's quiescence detection and fake clock are correct", "the instrumenter's rewrites preserve the semantics of the rewritten constructs (checked by the determinism self-test and by compiling)", "code between two scheduling points (atomic ops, lock ops, channel ops, goroutine spawns, map ranges) executes atomically in the simulation; unsynchronised interleavings below that granularity are only visible to the -race variant", "a clean batch is evidence for the bounds explored, not a proof"}

var specs = map[string]checkSpec{
	"C01": {
		Level: "exploration",
		Quick: budget{Runs: 12000, Chunk: 400, Race: 800},
		Thor:  budget{Seconds: 600, Chunk: 2000, Race: 10},
		Rule:  "Component simulation of the real mailbox.UnboundedMailbox over the real queues.RingQueue: 1-4 sender goroutines x 1-6 user/system envelopes, 0-2 controller goroutines issuing Pause/Resume, handlers that pause/resume/enqueue to their own mailbox; every atomic operation, ring lock and goroutine spawn is a scheduling point decided by a seeded scheduler (uniform / sticky / PCT). Oracles: no overlapping handler invocations, no duplicate, pause respected, nothing stranded at quiescence, everything handled after the final Resume, no spinning.",
		Real:  []string{"internal/mailbox.UnboundedMailbox", "internal/queues.RingQueue"},
		Stubs: append([]string{"the envelope handler (a recorder)"}, commonStubs...),
		Assume: commonAssume,
	},
	"C02": {
		Level: "exploration",
		Quick: budget{Runs: 6000, Chunk: 300, Race: 400},
		Thor:  budget{Seconds: 600, Chunk: 1500, Race: 10},
		Rule:  "W1: the real queues.RingQueue under 1-3 pusher goroutines and one popper, initial sizes 1-5 (and 256), up to 40 pushes with pops interleaved so that growth happens at every head/tail offset; oracle: pops are a per-pusher-order-preserving interleaving of the pushes, nothing lost, duplicated or nil. W2-W4: whole-system scenarios (per-sender FIFO at the behaviour across ring growth, immediate kill overtakes queued user mail, poison kill after it, stash order).",
		Real:  []string{"internal/queues.RingQueue", "internal/mailbox.UnboundedMailbox", "internal/actor (whole system variants)"},
		Stubs: commonStubs,
		Assume: commonAssume,
	},
	"C05": {
		Level: "exploration",
		Quick: budget{Runs: 1500, Chunk: 100},
		Thor:  budget{Seconds: 900, Chunk: 300},
		Rule:  "Whole-system scenarios on a real ActorSystem: a supervised tree (one-for-one or one-for-all, 1-3 children, optional grandchildren, with/without provider), 4-17 operations from 1-2 outside senders (tells, panics, Failed, Become, spawns with a failing Prelaunch, failing scheduled messages, failures while handling a child's OnKilled, failing OnLaunch, kills), supervision decisions drawn per failure; then probes, Stop, quiescence. Oracle: per actor path the behaviour-visible trace of every incarnation is OnLaunch any* [OnKill] OnKilled(self), nothing after the own OnKilled, no foreign OnLaunch, behaviour stack reset, fresh instance with a provider, failed spawns receive nothing.",
		Real:  commonReal,
		Stubs: commonStubs,
		Assume: commonAssume,
	},
	"C07": {
		Level: "exploration",
		Quick: budget{Runs: 1500, Chunk: 100},
		Thor:  budget{Seconds: 900, Chunk: 300},
		Rule:  "All sequences of length 1-4 over {Start, Stop(timeout), cancel the system context} are drawn, issued sequentially (checked call by call against the documented state machine) or from 2-3 goroutines concurrently (at most one Start and one Stop succeed, only documented errors), on systems with an empty tree, a small tree, and a tree with scheduled jobs; then a final Stop and quiescence. Oracles: every call returns (a call still blocked at the horizon is reported with what it waits for), Stop returns within its timeout on the simulated clock, all actors terminated, no registered goroutine of the system alive after Stop.",
		Real:  commonReal,
		Stubs: commonStubs,
		Assume: commonAssume,
	},
	"C03": {
		Level: "exploration",
		Quick: budget{Runs: 1500, Chunk: 100},
		Thor:  budget{Seconds: 900, Chunk: 300},
		Rule:  "Whole-system scenarios: a supervised tree of up to 8 actors, 5-18 operations from 1-3 outside senders and from actors (tells through references obtained by ActorOf / Clone / ParseRef / CreateRef, bursts with a failing message at a drawn position and a drawn supervision decision, kills racing tells, tells to terminated and never-existing paths, Stash/Unstash, actors turned into zombies). At quiescence every message id is accounted: handed to a behaviour (net of stashing) + still stashed + DeathLetterEvents carrying it == 1 (zombie targets exempt). Then Stop, more tells, quiescence again: nothing is processed, nothing spins.",
		Real:  commonReal,
		Stubs: commonStubs,
		Assume: commonAssume,
	},
	"C06": {
		Level: "exploration",
		Quick: budget{Runs: 1500, Chunk: 100},
		Thor:  budget{Seconds: 900, Chunk: 300},
		Rule:  "Trees of depth <= 4 (up to ~12 actors, each with an event-stream subscription and a Loop job), 1-2 watcher actors registering 1-4 watches through by-path references before or racing the kills, 1-3 kills (poison or immediate, from outside goroutines or from actors, optionally repeated, optionally racing an ActorOf inside the victim) issued concurrently. Oracles over the recorded history at quiescence: every descendant terminated, exactly one ActorKilledEvent per actor and never before a descendant's, exactly one OnKilled at the parent and at every watcher registered before termination, FindActor fails, the name is reusable, events published afterwards are neither delivered to nor dead-lettered for the dead actors, no scheduled message fires after termination.",
		Real:  commonReal,
		Stubs: commonStubs,
		Assume: commonAssume,
	},
	"C19": {
		Level: "exploration",
		Quick: budget{Runs: 1500, Chunk: 100},
		Thor:  budget{Seconds: 900, Chunk: 300},
		Rule:  "2-5 subscriber actors (children of a restarting supervisor), 1-3 publisher actors plus outside goroutines publishing directly, 3 event types, 6-35 drawn operations (Subscribe - also repeated -, Unsubscribe, UnsubscribeAll, Publish of uniquely numbered events, kill and restart of subscribers) issued by 1-3 concurrent drivers; every operation's invoke/return is stamped with the global event sequence number. Oracles: no duplicate delivery, per-publisher order per subscriber, nothing sent to a subscriber after its ActorKilledEvent, the whole history linearizable (porcupine, histories <= 45 ops) against the model 'state = set of (subscriber,type); Publish returns the holders of its type', and no table entry left for a terminated subscriber (accessor).",
		Real:  commonReal,
		Stubs: commonStubs,
		Assume: append([]string{"porcupine v1.3.0 linearizability checker; Unknown (time-out) results are counted, not reported"}, commonAssume...),
	},
	"C20": {
		Level: "exploration",
		Quick: budget{Runs: 1200, Chunk: 100},
		Thor:  budget{Seconds: 900, Chunk: 300},
		Rule:  "1-3 owner actors (children of a restarting supervisor) with 1-5 jobs each: Once / Loop (100 ms - 1 s) / valid Cron (every 2 s) / invalid Cron, to self or to a sink actor, with explicit, shared-across-actors and default references; 0-3 disruptions (Cancel known, Cancel unknown, Clear, kill owner, restart owner) at drawn simulated instants strictly between and exactly at firing instants; go-quartz runs for real on the simulated clock for 3.2 s. Oracle against the fake clock: the set of delivery instants of every job equals the expected firing instants before its end (the instant equal to the end is optional), never early, never twice, nothing (delivery or dead letter) after cancel / clear / owner death / owner restart, invalid Cron returns ErrorCronParse and never fires, Cancel(unknown) returns not-found, behaviours receive the original message value.",
		Real:  commonReal,
		Stubs: commonStubs,
		Assume: commonAssume,
	},
	"C04": {
		Level: "exploration",
		Quick: budget{Runs: 1200, Chunk: 100, Race: 300},
		Thor:  budget{Seconds: 900, Chunk: 300, Race: 25},
		Rule:  "1-12 Asks per run from actors and outside goroutines to 1-2 responders that reply once, twice, late (scheduled delay), with an error, or never; timeouts 1 ms - 30 s; 1-3 goroutines blocked in Result()/Wait() per future; optional third-party Close at a drawn instant; optional kill of an asking actor with futures outstanding; PipeTo (1-2 dedicated forwarder actors per future) before, around and after completion. Oracles: all waiters of a future return the same single outcome at the same simulated instant; a reply outcome carries the request's own id and is the responder's first reply; a timeout completes exactly at ask time + timeout and only if no reply was due before it; actor-dead only after the asker's kill; no waiter is still blocked at the horizon; every forwarder gets exactly one PipeResult equal to the outcome; at quiescence no future is left in the path registry or futureAgents (accessor). The same workload runs in the -race binary.",
		Real:  commonReal,
		Stubs: commonStubs,
		Assume: commonAssume,
	},
}
