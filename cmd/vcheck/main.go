// vcheck: driver of the vivid deterministic-simulation checks (DESIGN.md 2.11).
//
//	vcheck <PROPERTY> --tier quick|thorough     run a check, write evidence/<id>.json
//	vcheck replay <file>                         re-execute a replay file in a fresh process
//	vcheck trace <file>                          same, printing every scheduling decision
//	vcheck build                                 build (or reuse) the instrumented binaries for /repo's tree
//	vcheck selftest [--seeds N]                  determinism self-test
//
// Exit codes: 0 held / 1 VIOLATION printed / 2 could not decide (build, watchdog, divergence).
package main

import (
	"bufio"
	"bytes"
	"crypto/sha256"
	"encoding/hex"
	"encoding/json"
	"fmt"
	"io"
	"os"
	"os/exec"
	"path/filepath"
	"regexp"
	"sort"
	"strconv"
	"strings"
	"sync"
	"syscall"
	"time"
)

var (
	verifRoot string
	repoRoot  = "/repo"
	goBin     = "/opt/veriftools/go1.26.8/bin"
)

func die2(format string, a ...any) {
	fmt.Fprintf(os.Stderr, "vcheck: "+format+"\n", a...)
	os.Exit(2)
}

func goEnv() []string {
	env := os.Environ()
	env = append(env, "GOFLAGS=-mod=mod", "GOPROXY=off", "GOSUMDB=off", "GOTOOLCHAIN=local", "PATH="+goBin+":"+os.Getenv("PATH"))
	return env
}

func main() {
	wd, _ := os.Getwd()
	verifRoot = wd
	if v := os.Getenv("VERIF_ROOT"); v != "" {
		verifRoot = v
	}
	if v := os.Getenv("VERIF_REPO"); v != "" {
		repoRoot = v
	}
	if _, err := os.Stat(filepath.Join(verifRoot, "harness")); err != nil {
		die2("run from /verif (no harness/ in %s)", verifRoot)
	}
	if len(os.Args) < 2 {
		die2("usage: vcheck <PROPERTY>|replay|trace|build|selftest ...")
	}
	switch os.Args[1] {
	case "build":
		b := ensureBuild(true)
		fmt.Println(b.plain)
		fmt.Println(b.race)
	case "replay", "trace":
		if len(os.Args) < 3 {
			die2("usage: vcheck replay <file>")
		}
		os.Exit(cmdReplay(os.Args[1], os.Args[2]))
	case "selftest":
		os.Exit(cmdSelftest(os.Args[2:]))
	default:
		os.Exit(cmdCheck(os.Args[1], os.Args[2:]))
	}
}

// ---------------------------------------------------------------------------------------------
// build pipeline (DESIGN.md 2.1)

type binaries struct{ plain, race, key string }

func hashTree(h io.Writer, root string, skip func(rel string, isDir bool) bool) {
	var files []string
	filepath.Walk(root, func(p string, info os.FileInfo, err error) error {
		if err != nil {
			return nil
		}
		rel, _ := filepath.Rel(root, p)
		if rel == "." {
			return nil
		}
		if skip(rel, info.IsDir()) {
			if info.IsDir() {
				return filepath.SkipDir
			}
			return nil
		}
		if !info.IsDir() && info.Mode().IsRegular() {
			files = append(files, rel)
		}
		return nil
	})
	sort.Strings(files)
	for _, f := range files {
		b, err := os.ReadFile(filepath.Join(root, f))
		if err != nil {
			continue
		}
		fmt.Fprintf(h, "%s %d\n", f, len(b))
		h.Write(b)
	}
}

func repoSkip(rel string, isDir bool) bool {
	base := filepath.Base(rel)
	if isDir {
		return base == ".git" || rel == "docs" || rel == "examples" || base == ".idea" || base == ".github"
	}
	if strings.HasSuffix(rel, "_test.go") {
		return true
	}
	return !(strings.HasSuffix(rel, ".go") || base == "go.mod" || base == "go.sum")
}

func buildKey() string {
	h := sha256.New()
	hashTree(h, repoRoot, repoSkip)
	fmt.Fprintf(h, "gcflags=%s\n", os.Getenv("VSIM_GCFLAGS"))
	for _, d := range []string{"vsimrt", "harness", "instrument", "cmd/vcheck"} { // cmd/vcheck: the build recipe (which packages are instrumented) lives there
		fmt.Fprintf(h, "== %s\n", d)
		hashTree(h, filepath.Join(verifRoot, d), func(rel string, isDir bool) bool { return false })
	}
	return hex.EncodeToString(h.Sum(nil))[:24]
}

func copyTree(src, dst string, skip func(rel string, isDir bool) bool) error {
	return filepath.Walk(src, func(p string, info os.FileInfo, err error) error {
		if err != nil {
			return err
		}
		rel, _ := filepath.Rel(src, p)
		if rel != "." && skip(rel, info.IsDir()) {
			if info.IsDir() {
				return filepath.SkipDir
			}
			return nil
		}
		target := filepath.Join(dst, rel)
		if info.IsDir() {
			return os.MkdirAll(target, 0o755)
		}
		if !info.Mode().IsRegular() {
			return nil
		}
		b, err := os.ReadFile(p)
		if err != nil {
			return err
		}
		return os.WriteFile(target, b, 0o644)
	})
}

func run(dir string, env []string, name string, args ...string) (string, error) {
	cmd := exec.Command(name, args...)
	cmd.Dir = dir
	cmd.Env = env
	var buf bytes.Buffer
	cmd.Stdout = &buf
	cmd.Stderr = &buf
	err := cmd.Run()
	return buf.String(), err
}

var reqRe = regexp.MustCompile(`(?m)^\s*(?:require\s+)?(github\.com/reugn/go-quartz|golang\.org/x/sync)\s+(v\S+)`)

func ensureBuild(verbose bool) binaries {
	key := buildKey()
	cacheDir := filepath.Join(verifRoot, ".cache", key)
	b := binaries{plain: filepath.Join(cacheDir, "harness.test"), race: filepath.Join(cacheDir, "harness.race.test"), key: key}
	ok := func() bool {
		_, e1 := os.Stat(b.plain)
		_, e2 := os.Stat(b.race)
		return e1 == nil && e2 == nil
	}
	if ok() {
		now := time.Now()
		os.Chtimes(cacheDir, now, now) // least-recently-used order for pruneCache
		return b
	}
	// one build at a time
	os.MkdirAll(filepath.Join(verifRoot, ".cache"), 0o755)
	lock, err := os.OpenFile("/var/tmp/vsim-build.lock", os.O_CREATE|os.O_RDWR, 0o644)
	if err != nil {
		die2("lock: %v", err)
	}
	defer lock.Close()
	if err := syscall.Flock(int(lock.Fd()), syscall.LOCK_EX); err != nil {
		die2("flock: %v", err)
	}
	defer syscall.Flock(int(lock.Fd()), syscall.LOCK_UN)
	if ok() {
		return b
	}
	t0 := time.Now()
	instr := filepath.Join(verifRoot, "bin", "vsim-instrument")
	if _, err := os.Stat(instr); err != nil {
		die2("bin/vsim-instrument missing: run ./setup.sh first")
	}
	scratch := "/var/tmp/vsim-scratch"
	os.RemoveAll(scratch)
	defer os.RemoveAll(scratch)
	env := goEnv()
	must := func(what string, out string, err error) {
		if err != nil {
			fmt.Fprintf(os.Stderr, "%s\n", out)
			os.RemoveAll(scratch)
			die2("build step %q failed: %v (the tree could not be instrumented/compiled; this is not a verdict)", what, err)
		}
	}
	must("copy repo", "", copyTree(repoRoot, filepath.Join(scratch, "vivid"), repoSkip))
	gomod, err := os.ReadFile(filepath.Join(repoRoot, "go.mod"))
	must("read go.mod", "", err)
	vers := map[string]string{}
	for _, m := range reqRe.FindAllStringSubmatch(string(gomod), -1) {
		vers[m[1]] = m[2]
	}
	mc, err := run("", env, goBin+"/go", "env", "GOMODCACHE")
	must("go env", mc, err)
	modcache := strings.TrimSpace(mc)
	noTests := func(rel string, isDir bool) bool {
		if isDir {
			return filepath.Base(rel) == "examples" || filepath.Base(rel) == ".github"
		}
		return strings.HasSuffix(rel, "_test.go")
	}
	qv, sv := vers["github.com/reugn/go-quartz"], vers["golang.org/x/sync"]
	if qv == "" || sv == "" {
		die2("go.mod does not require go-quartz / x/sync as expected")
	}
	must("copy quartz", "", copyTree(filepath.Join(modcache, "github.com/reugn/go-quartz@"+qv), filepath.Join(scratch, "quartz"), noTests))
	must("copy xsync", "", copyTree(filepath.Join(modcache, "golang.org/x/sync@"+sv), filepath.Join(scratch, "xsync"), noTests))
	must("copy vsimrt", "", copyTree(filepath.Join(verifRoot, "vsimrt"), filepath.Join(scratch, "vsimrt"), func(string, bool) bool { return false }))
	for _, m := range []string{"vivid", "quartz", "xsync"} {
		f, err := os.OpenFile(filepath.Join(scratch, m, "go.mod"), os.O_APPEND|os.O_WRONLY, 0o644)
		must("open go.mod", "", err)
		fmt.Fprintf(f, "\nrequire vsimrt v0.0.0\nreplace vsimrt => ../vsimrt\n")
		if m == "vivid" {
			fmt.Fprintf(f, "replace github.com/reugn/go-quartz => ../quartz\nreplace golang.org/x/sync => ../xsync\nrequire github.com/anishathalye/porcupine v1.3.0\n")
		}
		f.Close()
	}
	penv := append(env, "VSIM_PROBES="+filepath.Join(verifRoot, "instrument", "probes.json"))
	o, err := run(filepath.Join(scratch, "quartz"), penv, instr, "-dir", ".", "./quartz", "./job", "./logger")
	must("instrument go-quartz", o, err)
	o, err = run(filepath.Join(scratch, "xsync"), penv, instr, "-dir", ".", "./singleflight")
	must("instrument x/sync", o, err)
	o, err = run(filepath.Join(scratch, "vivid"), penv, instr, "-dir", ".", ".", "./internal/actor", "./internal/mailbox", "./internal/queues", "./internal/future",
		"./internal/guard", "./internal/messages", "./internal/remoting/...", "./internal/cluster", "./internal/scheduler", "./internal/chain", "./internal/utils", "./internal/sugar", "./internal/metrics")
	must("instrument vivid", o, err)
	if verbose {
		fmt.Fprint(os.Stderr, o)
	}
	// harness + accessor files
	hdir := filepath.Join(scratch, "vivid", "internal", "vsimharness")
	os.MkdirAll(hdir, 0o755)
	ents, _ := os.ReadDir(filepath.Join(verifRoot, "harness"))
	for _, e := range ents {
		if e.IsDir() || !strings.HasSuffix(e.Name(), ".go") {
			continue
		}
		bts, _ := os.ReadFile(filepath.Join(verifRoot, "harness", e.Name()))
		os.WriteFile(filepath.Join(hdir, e.Name()), bts, 0o644)
	}
	accRoot := filepath.Join(verifRoot, "harness", "accessors")
	if aents, err := os.ReadDir(accRoot); err == nil {
		for _, d := range aents {
			if !d.IsDir() {
				continue
			}
			pkgDir := filepath.Join(scratch, "vivid", strings.ReplaceAll(d.Name(), "__", "/"))
			if d.Name() == "root" {
				pkgDir = filepath.Join(scratch, "vivid")
			}
			files, _ := os.ReadDir(filepath.Join(accRoot, d.Name()))
			for _, f := range files {
				bts, _ := os.ReadFile(filepath.Join(accRoot, d.Name(), f.Name()))
				os.WriteFile(filepath.Join(pkgDir, f.Name()), bts, 0o644)
			}
		}
	}
	tmpOut := filepath.Join(scratch, "out")
	os.MkdirAll(tmpOut, 0o755)
	vdir := filepath.Join(scratch, "vivid")
	var wg sync.WaitGroup
	var o1, o2 string
	var e1, e2 error
	wg.Add(2)
	go func() {
		defer wg.Done()
		o1, e1 = run(vdir, env, goBin+"/go", "test", "-c", "-tags", "vsim", "-trimpath", "-o", filepath.Join(tmpOut, "harness.test"), "./internal/vsimharness")
	}()
	go func() {
		defer wg.Done()
		args := []string{"test", "-c", "-race", "-tags", "vsim", "-trimpath"}
		if g := os.Getenv("VSIM_GCFLAGS"); g != "" {
			args = append(args, "-gcflags="+g)
		}
		args = append(args, "-o", filepath.Join(tmpOut, "harness.race.test"), "./internal/vsimharness")
		o2, e2 = run(vdir, env, goBin+"/go", args...)
	}()
	wg.Wait()
	must("compile harness", o1, e1)
	must("compile harness (-race)", o2, e2)
	os.MkdirAll(cacheDir, 0o755)
	must("store", "", os.Rename(filepath.Join(tmpOut, "harness.test"), b.plain))
	must("store", "", os.Rename(filepath.Join(tmpOut, "harness.race.test"), b.race))
	pruneCache(filepath.Join(verifRoot, ".cache"), 6)
	fmt.Fprintf(os.Stderr, "vcheck: built instrumented binaries for tree %s in %.0fs\n", key, time.Since(t0).Seconds())
	return b
}

func pruneCache(dir string, keep int) {
	ents, _ := os.ReadDir(dir)
	type ent struct {
		name string
		mod  time.Time
	}
	var l []ent
	for _, e := range ents {
		if fi, err := e.Info(); err == nil && e.IsDir() {
			l = append(l, ent{e.Name(), fi.ModTime()})
		}
	}
	sort.Slice(l, func(i, j int) bool { return l[i].mod.After(l[j].mod) })
	for i := keep; i < len(l); i++ {
		// a build used within the last hour may belong to a check that is still running (its workers and its fresh-process
		// replays start from these files): it stays unless the cache has grown far beyond its size
		if time.Since(l[i].mod) < time.Hour && i < 4*keep {
			continue
		}
		os.RemoveAll(filepath.Join(dir, l[i].name))
	}
}

// ---------------------------------------------------------------------------------------------
// worker processes

type Job struct {
	Mode     string   `json:"mode"`
	Prop     string   `json:"prop"`
	Tier     string   `json:"tier"`
	Base     uint64   `json:"base"`
	Start    int      `json:"start"`
	Count    int      `json:"count"`
	Stride   int      `json:"stride"`
	Deadline int64    `json:"deadline"`
	Variants []string `json:"variants,omitempty"`
	File     string   `json:"file,omitempty"`
	Out      string   `json:"out,omitempty"`
	Budget   int      `json:"budget,omitempty"`
}

type Violation struct {
	Class string `json:"class"`
	Msg   string `json:"msg"`
	Step  int    `json:"step"`
}

type Result struct {
	Prop      string         `json:"prop"`
	Variant   string         `json:"variant"`
	Seed      uint64         `json:"seed"`
	OK        bool           `json:"ok"`
	Viol      *Violation     `json:"viol"`
	Reason    string         `json:"reason"`
	Steps     int            `json:"steps"`
	SimNs     int64          `json:"sim_ns"`
	Hash      uint64         `json:"hash"`
	Preempt   int            `json:"preempt"`
	Ext       int            `json:"ext"`
	Kinds     map[string]int `json:"kinds"`
	Counts    map[string]int `json:"counts"`
	Sample    any            `json:"sample"`
	TapeLen   int            `json:"tape_len"`
	Diverged  string         `json:"diverged"`
	Undecided string         `json:"undecided"`
	Notes     []string       `json:"notes"`
}

type Fail struct {
	Idx  int         `json:"idx"`
	Ord  int         `json:"ord"`
	Res  Result      `json:"res"`
	Tape [][3]uint32 `json:"tape"`
}

type Agg struct {
	Runs       int            `json:"runs"`
	Steps      int64          `json:"steps"`
	SimNs      int64          `json:"sim_ns"`
	Preempted  int            `json:"preempted_runs"`
	Ext        int            `json:"ext"`
	Created    int64          `json:"created"`
	Hashes     []uint64       `json:"hashes"`
	NonTriv    []uint64       `json:"nontrivial"`
	Kinds      map[string]int `json:"kinds"`
	Counts     map[string]int `json:"counts"`
	PerVariant map[string]int `json:"per_variant"`
	Samples    []any          `json:"samples"`
	Undecided  map[string]int `json:"undecided"`
	NextIdx    int            `json:"next_idx"`
	WallMs     int64          `json:"wall_ms"`
}

type ReplayFile struct {
	Property    string      `json:"property"`
	Variant     string      `json:"variant"`
	Tier        string      `json:"tier"`
	RunSeed     uint64      `json:"run_seed"`
	RunIndex    int         `json:"run_index"`
	Class       string      `json:"class"`
	Msg         string      `json:"msg"`
	Hash        uint64      `json:"schedule_hash"`
	Steps       int         `json:"steps"`
	Minimised   bool        `json:"minimised"`
	OrigTapeLen int         `json:"orig_tape_len"`
	NonZero     int         `json:"nonzero_choices"`
	Tape        [][3]uint32 `json:"tape"`
	Notes       []string    `json:"notes,omitempty"`
	Race        bool        `json:"race_binary,omitempty"`
}

type workerOut struct {
	fails    []Fail
	agg      *Agg
	lines    map[string][]json.RawMessage
	stderr   string
	lastRun  string
	exitErr  error
	timedOut bool
	races    []raceReport
}

// activityBuffer collects stderr and remembers when something was last written.
type activityBuffer struct {
	mu   sync.Mutex
	buf  bytes.Buffer
	last time.Time
}

func (a *activityBuffer) Write(p []byte) (int, error) {
	a.mu.Lock()
	defer a.mu.Unlock()
	a.last = time.Now()
	return a.buf.Write(p)
}
func (a *activityBuffer) touch() { a.mu.Lock(); a.last = time.Now(); a.mu.Unlock() }
func (a *activityBuffer) idle() time.Duration {
	a.mu.Lock()
	defer a.mu.Unlock()
	return time.Since(a.last)
}
func (a *activityBuffer) String() string { a.mu.Lock(); defer a.mu.Unlock(); return a.buf.String() }

type raceReport struct {
	Sig  string
	Text string
	Run  string // "idx seed variant" of the run during which it was printed
}

func runWorkerGMP(bin string, job Job, gmp string) *workerOut {
	return runWorkerEnv(bin, job, 600*time.Second, gmp)
}

func runWorker(bin string, job Job, watchdog time.Duration) *workerOut {
	return runWorkerEnv(bin, job, watchdog, "")
}

func runWorkerEnv(bin string, job Job, watchdog time.Duration, gmpOverride string) *workerOut {
	js, _ := json.Marshal(job)
	cmd := exec.Command(bin, "-test.run", "^TestWorker$", "-test.timeout", "0", "-test.count", "1")
	gmp := "4"
	if v := os.Getenv("VSIM_GOMAXPROCS"); v != "" {
		gmp = v
	}
	if gmpOverride != "" {
		gmp = gmpOverride
	}
	cmd.Env = append(os.Environ(), "VSIM_JOB="+string(js), "GORACE=halt_on_error=0 history_size=2", "GOMAXPROCS="+gmp)
	stdout, _ := cmd.StdoutPipe()
	var stderr activityBuffer
	cmd.Stderr = &stderr
	wo := &workerOut{lines: map[string][]json.RawMessage{}}
	if err := cmd.Start(); err != nil {
		wo.exitErr = err
		return wo
	}
	done := make(chan struct{})
	var timer *time.Timer
	stopWatch := make(chan struct{})
	if watchdog > 0 {
		// the watchdog is per run: it fires when the worker has printed nothing (no new VSIM-RUN marker) for `watchdog`
		stderr.touch()
		go func() {
			tk := time.NewTicker(time.Second)
			defer tk.Stop()
			for {
				select {
				case <-stopWatch:
					return
				case <-tk.C:
					if stderr.idle() > watchdog {
						wo.timedOut = true
						cmd.Process.Kill()
						return
					}
				}
			}
		}()
	}
	go func() {
		defer close(done)
		rd := bufio.NewReaderSize(stdout, 1<<20)
		for {
			line, err := rd.ReadBytes('\n')
			if len(line) > 5 && bytes.HasPrefix(line, []byte("VSIM-")) {
				sp := bytes.IndexByte(line, ' ')
				if sp > 0 {
					kind := string(line[5:sp])
					payload := append([]byte(nil), bytes.TrimSpace(line[sp+1:])...)
					switch kind {
					case "FAIL":
						var f Fail
						if json.Unmarshal(payload, &f) == nil {
							wo.fails = append(wo.fails, f)
						}
					case "AGG":
						var a Agg
						if json.Unmarshal(payload, &a) == nil {
							wo.agg = &a
						}
					default:
						wo.lines[kind] = append(wo.lines[kind], payload)
					}
				}
			}
			if err != nil {
				return
			}
		}
	}()
	<-done
	wo.exitErr = cmd.Wait()
	close(stopWatch)
	if timer != nil {
		timer.Stop()
	}
	wo.stderr = stderr.String()
	cur := ""
	sc := bufio.NewScanner(strings.NewReader(wo.stderr))
	sc.Buffer(make([]byte, 1<<20), 1<<24)
	var block []string
	inRace := false
	for sc.Scan() {
		l := sc.Text()
		if strings.HasPrefix(l, "VSIM-RUN ") {
			cur = strings.TrimPrefix(l, "VSIM-RUN ")
			continue
		}
		if strings.HasPrefix(l, "WARNING: DATA RACE") {
			inRace = true
			block = []string{l}
			continue
		}
		if inRace {
			block = append(block, l)
			if strings.HasPrefix(l, "==================") {
				txt := strings.Join(block, "\n")
				wo.races = append(wo.races, raceReport{Sig: raceSignature(txt), Text: txt, Run: cur})
				inRace = false
			}
		}
	}
	wo.lastRun = cur
	return wo
}

var frameRe = regexp.MustCompile(`^\s+(\S.*)\(\)\s*$`)

// raceSignature: for each of the two accesses the innermost frame that is not the Go runtime or the simulator
// shims. If that frame is harness code the access is the harness's own ("harness:..."); otherwise it is named
// by its function inside vivid / go-quartz.
func raceSignature(txt string) string {
	var tops []string
	lines := strings.Split(txt, "\n")
	for i := 0; i < len(lines); i++ {
		l := lines[i]
		if strings.HasPrefix(l, "Write at") || strings.HasPrefix(l, "Read at") || strings.HasPrefix(l, "Previous write at") || strings.HasPrefix(l, "Previous read at") ||
			strings.HasPrefix(l, "Atomic") || strings.HasPrefix(l, "Previous atomic") {
			top := "?"
			for j := i + 1; j < len(lines) && strings.TrimSpace(lines[j]) != ""; j++ {
				m := frameRe.FindStringSubmatch(lines[j])
				if m == nil {
					continue
				}
				fn := m[1]
				if strings.HasPrefix(fn, "runtime.") || strings.HasPrefix(fn, "vsimrt/") || strings.HasPrefix(fn, "sync.") || strings.HasPrefix(fn, "sync/atomic.") || strings.HasPrefix(fn, "internal/") {
					continue
				}
				switch {
				case strings.Contains(fn, "vsimharness"), strings.Contains(fn, ".Vsim"):
					top = "harness:" + fn[strings.LastIndex(fn, "/")+1:]
				case strings.Contains(fn, "kercylan98/vivid"):
					fn = strings.TrimPrefix(fn, "github.com/kercylan98/vivid/")
					top = strings.TrimPrefix(fn, "internal/")
				case strings.Contains(fn, "reugn/go-quartz"):
					top = fn[strings.Index(fn, "go-quartz/"):]
				default:
					top = "other:" + fn
				}
				break
			}
			tops = append(tops, top)
		}
	}
	sort.Strings(tops)
	return strings.Join(tops, "|")
}

// ---------------------------------------------------------------------------------------------
// checks

type budget struct {
	Runs    int // quick: number of runs
	Seconds int // thorough: wall budget
	Chunk   int // runs per worker process
	Race    int // additionally this many runs (quick) / this share of time (thorough, percent) in the -race binary
}

type checkSpec struct {
	Level  string
	Quick  budget
	Thor   budget
	Rule   string
	Real   []string
	Stubs  []string
	Assume []string
}

func envInt(name string, def int) int {
	if v := os.Getenv(name); v != "" {
		if n, err := strconv.Atoi(v); err == nil {
			return n
		}
	}
	return def
}

type knownFinding struct {
	Property string `json:"property"`
	Class    string `json:"class"`
	// ClassSuffix: the finding covers every class of the property that ends with this suffix. The workloads append
	// such suffixes from facts of the failing input (e.g. " partial-fanout": the run's fan-out is smaller than the
	// cluster), so the finding is tied to that input, not to a symptom.
	ClassSuffix string `json:"class_suffix,omitempty"`
	What        string `json:"what"`
	Since       string `json:"since,omitempty"`
}

type knownFile struct {
	Findings []knownFinding `json:"findings"`
	Fixed    []string       `json:"fixed"`
}

func loadKnown() knownFile {
	var k knownFile
	b, err := os.ReadFile(filepath.Join(verifRoot, "known_findings.json"))
	if err == nil {
		if err := json.Unmarshal(b, &k); err != nil {
			die2("known_findings.json: %v", err)
		}
	}
	return k
}

func cmdCheck(prop string, args []string) int {
	tier := os.Getenv("VERIF_TIER")
	if tier == "" {
		tier = "quick"
	}
	workers := envInt("VSIM_WORKERS", 16)
	runsOverride, secsOverride := 0, 0
	var variants []string
	noMin := false
	for i := 0; i < len(args); i++ {
		switch args[i] {
		case "--tier":
			i++
			tier = args[i]
		case "--runs":
			i++
			runsOverride, _ = strconv.Atoi(args[i])
		case "--seconds":
			i++
			secsOverride, _ = strconv.Atoi(args[i])
		case "--workers":
			i++
			workers, _ = strconv.Atoi(args[i])
		case "--variant":
			i++
			variants = append(variants, args[i])
		case "--no-minimise":
			noMin = true
		default:
			die2("unknown argument %q", args[i])
		}
	}
	if tier != "quick" && tier != "thorough" {
		die2("tier must be quick or thorough")
	}
	spec, ok := specs[prop]
	if !ok {
		die2("no check for property %q", prop)
	}
	base := uint64(1)
	if v := os.Getenv("VERIF_SEED"); v != "" {
		n, err := strconv.ParseUint(v, 10, 64)
		if err != nil {
			if sn, err2 := strconv.ParseInt(v, 10, 64); err2 == nil {
				n = uint64(sn)
			} else {
				die2("VERIF_SEED=%q is not an integer", v)
			}
		}
		base = n
	}
	t0 := time.Now()
	bins := ensureBuild(false)
	bud := spec.Quick
	if tier == "thorough" {
		bud = spec.Thor
	}
	if runsOverride > 0 {
		bud.Runs, bud.Seconds = runsOverride, 0
	}
	if secsOverride > 0 {
		bud.Seconds, bud.Runs = secsOverride, 0
	}
	if bud.Chunk == 0 {
		bud.Chunk = 200
	}
	known := loadKnown()

	total := newTotals()
	// plain binary
	phase(bins.plain, false, prop, tier, base, bud, workers, variants, total)
	// race binary
	if bud.Race > 0 && len(total.undecided) == 0 {
		rb := bud
		if bud.Seconds > 0 {
			rb.Seconds = bud.Seconds * bud.Race / 100
			rb.Runs = 0
		} else {
			rb.Runs = bud.Race
		}
		if rb.Chunk > 50 {
			rb.Chunk = 50
		}
		phase(bins.race, true, prop, tier, base+0x5eed, rb, workers, variants, total)
	}

	// triage
	exit := 0
	var lines []string
	classes := make([]string, 0, len(total.byClass))
	for c := range total.byClass {
		classes = append(classes, c)
	}
	sort.Strings(classes)
	os.MkdirAll(filepath.Join(verifRoot, "replays"), 0o755)
	newViol := 0
	knownHit := map[string]int{}
	for _, c := range classes {
		fl := total.byClass[c]
		var kf *knownFinding
		for i := range known.Findings {
			f := &known.Findings[i]
			if f.Property == prop && ((f.Class != "" && f.Class == c) || (f.ClassSuffix != "" && strings.HasSuffix(c, f.ClassSuffix))) {
				kf = f
				c2 := f.Class
				if c2 == "" {
					c2 = "*" + f.ClassSuffix
				}
				knownHit[c2] += fl.count
			}
		}
		if kf != nil {
			continue
		}
		newViol++
		path := reportViolation(bins, prop, tier, c, fl, noMin)
		if path == "" {
			lines = append(lines, fmt.Sprintf("UNDECIDED property=%s class=%q: the failing run did not reproduce from its tape in a fresh process (seed %d: %s); treated as could-not-decide", prop, c, fl.first.Res.Seed, lastReplayWhy))
			if exit == 0 {
				exit = 2
			}
			continue
		}
		lines = append(lines, fmt.Sprintf("VIOLATION property=%s replay=%s", prop, path))
		lines = append(lines, fmt.Sprintf("  class: %s (%d of %d runs)\n  %s", c, fl.count, total.runs, strings.ReplaceAll(fl.first.Res.Viol.Msg, "\n", "\n  ")))
		exit = 1
	}
	for _, kf := range known.Findings {
		if kf.Property != prop {
			continue
		}
		key := kf.Class
		if key == "" {
			key = "*" + kf.ClassSuffix
		}
		if n, ok := knownHit[key]; ok {
			lines = append(lines, fmt.Sprintf("KNOWN-FINDING: property=%s %s [class %q; reproduced in %d of %d runs of this batch]", prop, kf.What, key, n, total.runs))
		} else {
			lines = append(lines, fmt.Sprintf("KNOWN-FINDING: property=%s %s [class %q; listed in known_findings.json, not reproduced by this batch's seeds]", prop, kf.What, key))
		}
	}
	if len(total.undecided) > 0 && exit == 0 {
		exit = 2
	}
	wall := time.Since(t0).Seconds()
	writeEvidence(prop, tier, base, spec, total, wall, newViol, knownHit, bins.key)
	for _, l := range lines {
		fmt.Println(l)
	}
	for _, u := range total.undecided {
		fmt.Println("UNDECIDED:", u)
	}
	fmt.Printf("%s %s: %d runs (%d in the -race binary), %d distinct schedules (%d non-trivial), %d decisions, %.1fs simulated, %.1fs wall, ext=%d, race reports=%d (harness-internal %d), violations=%d known=%d\n",
		prop, tier, total.runs, total.raceRuns, len(total.hashes), len(total.nontriv), total.steps, float64(total.simNs)/1e9, wall, total.ext, total.raceReports, total.harnessRaces, newViol, len(knownHit))
	if exit == 0 && total.runs == 0 {
		fmt.Println("UNDECIDED: no run was executed")
		exit = 2
	}
	return exit
}

type failList struct {
	first    Fail
	race     bool
	count    int
	raceText string
}

type totals struct {
	mu           sync.Mutex
	runs         int
	raceRuns     int
	steps        int64
	simNs        int64
	ext          int
	created      int64
	preempted    int
	hashes       map[uint64]struct{}
	nontriv      map[uint64]struct{}
	kinds        map[string]int
	counts       map[string]int
	perVar       map[string]int
	samples      []any
	byClass      map[string]*failList
	undecided    []string
	raceReports  int
	harnessRaces int
}

func newTotals() *totals {
	return &totals{hashes: map[uint64]struct{}{}, nontriv: map[uint64]struct{}{}, kinds: map[string]int{}, counts: map[string]int{}, perVar: map[string]int{}, byClass: map[string]*failList{}}
}

func (t *totals) addFail(f Fail, race bool) {
	c := f.Res.Viol.Class
	fl := t.byClass[c]
	if fl == nil {
		t.byClass[c] = &failList{first: f, race: race, count: 1}
		return
	}
	fl.count++
	// prefer the shortest failing run as the representative
	if f.Res.Steps < fl.first.Res.Steps && fl.race == race {
		fl.first = f
	}
}

func phase(bin string, race bool, prop, tier string, base uint64, bud budget, workers int, variants []string, tot *totals) {
	var deadline int64
	if bud.Seconds > 0 {
		deadline = time.Now().Add(time.Duration(bud.Seconds) * time.Second).Unix()
	}
	var mu sync.Mutex
	next := 0
	limit := bud.Runs
	grab := func() (int, int) {
		mu.Lock()
		defer mu.Unlock()
		if deadline > 0 {
			if time.Now().Unix() >= deadline {
				return 0, 0
			}
			s := next
			next += bud.Chunk
			return s, bud.Chunk
		}
		if next >= limit {
			return 0, 0
		}
		s := next
		n := bud.Chunk
		if s+n > limit {
			n = limit - s
		}
		next += n
		return s, n
	}
	var wg sync.WaitGroup
	for w := 0; w < workers; w++ {
		wg.Add(1)
		go func() {
			defer wg.Done()
			for {
				start, n := grab()
				if n == 0 {
					return
				}
				for n > 0 {
					job := Job{Mode: "batch", Prop: prop, Tier: tier, Base: base, Start: start, Count: n, Stride: 1, Deadline: deadline, Variants: variants}
					wo := runWorker(bin, job, time.Duration(envInt("VSIM_WATCHDOG", 180))*time.Second)
					done := absorb(wo, race, prop, tot, start)
					if done < 0 {
						return
					}
					if done >= n || wo.agg != nil {
						break
					}
					// the process ended early (a race report makes `testing` leave the test): continue after the last run
					start += done
					n -= done
				}
				tot.mu.Lock()
				stop := len(tot.undecided) > 0 || len(tot.byClass) >= 12
				tot.mu.Unlock()
				if stop {
					return
				}
			}
		}()
	}
	wg.Wait()
}

// absorb merges a worker's output; returns the number of runs it completed, -1 on an undecidable failure.
func absorb(wo *workerOut, race bool, prop string, tot *totals, start int) int {
	tot.mu.Lock()
	defer tot.mu.Unlock()
	for _, e := range wo.lines["ERROR"] {
		tot.undecided = append(tot.undecided, "worker error: "+string(e))
	}
	for _, f := range wo.fails {
		if f.Res.Viol == nil {
			continue
		}
		tot.addFail(f, race)
	}
	for _, rr := range wo.races {
		tot.raceReports++
		parts := strings.Fields(rr.Run)
		var f Fail
		if len(parts) >= 3 {
			f.Idx, _ = strconv.Atoi(parts[0])
			f.Res.Seed, _ = strconv.ParseUint(parts[1], 10, 64)
			f.Res.Variant = parts[2]
		}
		if len(parts) >= 4 {
			f.Ord, _ = strconv.Atoi(parts[3])
		}
		f.Res.Prop = prop
		cls := prop + "/race " + rr.Sig
		parts2 := strings.Split(rr.Sig, "|")
		nHarness, nUnknown := 0, 0
		for _, p := range parts2 {
			if strings.HasPrefix(p, "harness:") {
				nHarness++
			}
			if p == "?" || strings.HasPrefix(p, "other:") {
				nUnknown++
			}
		}
		if nHarness == len(parts2) || (nHarness > 0 && nHarness+nUnknown == len(parts2)) {
			// both accesses are in harness code: not an access of the system under test; counted, not reported
			tot.harnessRaces++
			if os.Getenv("VSIM_SHOW_HARNESS_RACES") != "" && tot.harnessRaces <= 3 {
				fmt.Fprintf(os.Stderr, "harness-internal race report (%s):\n%s\n", rr.Sig, rr.Text)
			}
			continue
		}
		accessor := false
		for _, p := range parts2 {
			if strings.HasPrefix(p, "harness:") && strings.Contains(p, ".Vsim") {
				accessor = true
			}
		}
		if accessor {
			// an accessor reads vivid state at quiescence: ordered by the (hidden) scheduler by construction
			tot.harnessRaces++
			continue
		}
		if nHarness > 0 || nUnknown > 0 {
			// one side is harness/unknown code touching vivid state: a harness bug, not a verdict
			tot.undecided = append(tot.undecided, "race report between harness and vivid code (harness bug?):\n"+rr.Text)
			continue
		}
		f.Res.Viol = &Violation{Class: cls, Msg: rr.Text}
		f.Res.Steps = 1 << 30
		fl := tot.byClass[cls]
		if fl == nil {
			tot.byClass[cls] = &failList{first: f, race: true, count: 1, raceText: rr.Text}
		} else {
			fl.count++
		}
	}
	if wo.agg != nil {
		a := wo.agg
		tot.runs += a.Runs
		if race {
			tot.raceRuns += a.Runs
		}
		tot.steps += a.Steps
		tot.simNs += a.SimNs
		tot.ext += a.Ext
		tot.created += a.Created
		tot.preempted += a.Preempted
		for _, h := range a.Hashes {
			tot.hashes[h] = struct{}{}
		}
		for _, h := range a.NonTriv {
			tot.nontriv[h] = struct{}{}
		}
		for k, v := range a.Kinds {
			tot.kinds[k] += v
		}
		for k, v := range a.Counts {
			tot.counts[k] += v
		}
		for k, v := range a.PerVariant {
			tot.perVar[k] += v
		}
		for _, s := range a.Samples {
			if len(tot.samples) < 6 {
				tot.samples = append(tot.samples, s)
			}
		}
		for k, v := range a.Undecided {
			tot.undecided = append(tot.undecided, fmt.Sprintf("%s (%d runs)", k, v))
		}
		return a.Runs
	}
	// no aggregate: the process died
	if wo.timedOut {
		tot.undecided = append(tot.undecided, fmt.Sprintf("watchdog: worker killed during run %q (a goroutine looping without reaching a scheduling point, or a real deadlock)", wo.lastRun))
		return -1
	}
	if len(wo.races) > 0 && wo.lastRun != "" {
		parts := strings.Fields(wo.lastRun)
		idx, _ := strconv.Atoi(parts[0])
		tot.runs += idx - start + 1
		tot.raceRuns += idx - start + 1
		return idx - start + 1
	}
	tail := wo.stderr
	if len(tail) > 3000 {
		tail = tail[len(tail)-3000:]
	}
	if strings.Contains(wo.stderr, "fatal error:") || strings.Contains(wo.stderr, "panic:") {
		// a crash of the process is a violation of "no crash" only if it comes from vivid; report it with the seed
		parts := strings.Fields(wo.lastRun)
		var f Fail
		if len(parts) >= 3 {
			f.Idx, _ = strconv.Atoi(parts[0])
			f.Res.Seed, _ = strconv.ParseUint(parts[1], 10, 64)
			f.Res.Variant = parts[2]
		}
		first := ""
		for _, l := range strings.Split(wo.stderr, "\n") {
			if strings.HasPrefix(l, "fatal error:") || strings.HasPrefix(l, "panic:") {
				first = l
				break
			}
		}
		if len(first) > 100 {
			first = first[:100]
		}
		f.Res.Prop = prop
		f.Res.Viol = &Violation{Class: prop + "/process-crash " + first, Msg: tail}
		f.Res.Steps = 1 << 30
		tot.addFail(f, race)
		return -1
	}
	tot.undecided = append(tot.undecided, fmt.Sprintf("worker exited without a result (%v) during run %q:\n%s", wo.exitErr, wo.lastRun, tail))
	return -1
}

// reportViolation writes the replay file (minimised when possible), replays it in a fresh process and returns its path ("" if it does not reproduce).
func reportViolation(bins binaries, prop, tier, class string, fl *failList, noMin bool) string {
	f := fl.first
	bin := bins.plain
	if fl.race {
		bin = bins.race
	}
	name := fmt.Sprintf("%s-%d", prop, f.Res.Seed)
	raw := filepath.Join(verifRoot, "replays", name+".raw.json")
	final := filepath.Join(verifRoot, "replays", name+".json")
	rf := ReplayFile{Property: prop, Variant: f.Res.Variant, Tier: tier, RunSeed: f.Res.Seed, RunIndex: f.Ord, Class: class, Msg: f.Res.Viol.Msg, Hash: f.Res.Hash, Steps: f.Res.Steps, Tape: f.Tape, OrigTapeLen: len(f.Tape), Race: fl.race, Notes: f.Res.Notes}
	if f.Tape == nil {
		// race reports and crashes carry no tape: the seed regenerates the run
		rf.Tape = nil
		b, _ := json.Marshal(rf)
		os.WriteFile(final, b, 0o644)
		if fl.race && fl.raceText != "" {
			return final // a race report is its own evidence; replay = re-run the seed in the race binary
		}
		return final
	}
	b, _ := json.Marshal(rf)
	os.WriteFile(raw, b, 0o644)
	os.Remove(final) // a file of the same name left by an earlier invocation (same seed, other tree) must not be taken for this run's
	if !noMin {
		wo := runWorker(bin, Job{Mode: "minimise", File: raw, Out: final, Budget: envInt("VSIM_MIN_BUDGET", 400)}, 300*time.Second)
		okMin := false
		for _, m := range wo.lines["MIN"] {
			var r struct {
				OK bool `json:"ok"`
			}
			if json.Unmarshal(m, &r) == nil && r.OK {
				okMin = true
			}
		}
		if !okMin {
			os.Remove(final)
		}
	}
	if _, err := os.Stat(final); err != nil {
		os.Rename(raw, final)
	} else {
		os.Remove(raw)
	}
	// confirm in a fresh process
	wo := runWorker(bin, Job{Mode: "replay", File: final}, 300*time.Second)
	for _, m := range wo.lines["REPLAY"] {
		var r struct {
			Same bool   `json:"same"`
			Res  Result `json:"res"`
		}
		if json.Unmarshal(m, &r) == nil && r.Same && r.Res.Diverged == "" {
			return final
		}
		why := "no violation"
		if r.Res.Viol != nil {
			why = "violation class " + r.Res.Viol.Class
		}
		if r.Res.Diverged != "" {
			why += "; diverged: " + r.Res.Diverged
		}
		lastReplayWhy = why
	}
	if len(wo.lines["REPLAY"]) == 0 {
		lastReplayWhy = fmt.Sprintf("replay worker gave no result (exit %v): %s", wo.exitErr, tailStr(wo.stderr, 400))
	}
	return ""
}

var lastReplayWhy string

func tailStr(s string, n int) string {
	if len(s) > n {
		return s[len(s)-n:]
	}
	return s
}

func cmdReplay(mode, file string) int {
	b, err := os.ReadFile(file)
	if err != nil {
		die2("%v", err)
	}
	var rf ReplayFile
	if err := json.Unmarshal(b, &rf); err != nil {
		die2("%v", err)
	}
	bins := ensureBuild(false)
	bin := bins.plain
	if rf.Race {
		bin = bins.race
	}
	if rf.Tape == nil {
		// seed-only replay (race reports, crashes): re-run exactly that run
		return replaySeedOnly(bin, rf)
	}
	wo := runWorker(bin, Job{Mode: mode, File: file}, 600*time.Second)
	for _, l := range wo.lines["TRACE"] {
		fmt.Println(string(l))
	}
	for _, m := range wo.lines["REPLAY"] {
		var r struct {
			Same     bool   `json:"same"`
			Expected string `json:"expected_class"`
			Res      Result `json:"res"`
		}
		if err := json.Unmarshal(m, &r); err != nil {
			die2("bad worker output: %v", err)
		}
		if r.Res.Diverged != "" {
			fmt.Printf("replay diverged: %s (the code under test changed, or a nondeterminism source escaped)\n", r.Res.Diverged)
			if !r.Same {
				return 2
			}
		}
		if os.Getenv("VSIM_NOTES") != "" {
			for _, n := range r.Res.Notes {
				fmt.Println("  note:", n)
			}
		}
		if r.Same {
			fmt.Printf("VIOLATION property=%s replay=%s\n  class: %s\n  %s\n  (reproduced: %d decisions, schedule hash %x)\n", rf.Property, file, r.Res.Viol.Class, strings.ReplaceAll(r.Res.Viol.Msg, "\n", "\n  "), r.Res.Steps, r.Res.Hash)
			return 1
		}
		if r.Res.Viol != nil {
			fmt.Printf("replay produced a different violation: %s: %s\n", r.Res.Viol.Class, r.Res.Viol.Msg)
			return 1
		}
		fmt.Printf("replay of %s: no violation (expected class %q); %d decisions\n", file, r.Expected, r.Res.Steps)
		return 0
	}
	die2("worker produced no replay result:\n%s", wo.stderr)
	return 2
}

func replaySeedOnly(bin string, rf ReplayFile) int {
	wo := runWorker(bin, Job{Mode: "seed", Prop: rf.Property, Tier: rf.Tier, Variants: []string{rf.Variant}, Base: rf.RunSeed, Start: rf.RunIndex}, 600*time.Second)
	for _, rr := range wo.races {
		cls := rf.Property + "/race " + rr.Sig
		if cls == rf.Class {
			fmt.Printf("VIOLATION property=%s replay=%s\n  class: %s\n%s\n", rf.Property, "(seed "+strconv.FormatUint(rf.RunSeed, 10)+")", cls, rr.Text)
			return 1
		}
	}
	for _, f := range wo.fails {
		if f.Res.Viol != nil {
			fmt.Printf("VIOLATION property=%s\n  class: %s\n  %s\n", rf.Property, f.Res.Viol.Class, f.Res.Viol.Msg)
			return 1
		}
	}
	if strings.Contains(wo.stderr, "fatal error:") {
		fmt.Printf("VIOLATION property=%s\n  process crashed again:\n%s\n", rf.Property, wo.stderr)
		return 1
	}
	fmt.Printf("seed replay of %d: no violation reproduced (expected %q)\n", rf.RunSeed, rf.Class)
	return 0
}

// ---------------------------------------------------------------------------------------------
// evidence

func writeEvidence(prop, tier string, base uint64, spec checkSpec, t *totals, wall float64, newViol int, knownHit map[string]int, key string) {
	if os.Getenv("VSIM_NO_EVIDENCE") != "" {
		return
	}
	samples := t.samples
	if len(samples) == 0 {
		samples = []any{"(no run completed)"}
	}
	faults := map[string]int{}
	reach := map[string]int{}
	for k, v := range t.counts {
		if strings.HasPrefix(k, "fault:") {
			faults[strings.TrimPrefix(k, "fault:")] = v
		} else {
			reach[k] = v
		}
	}
	runsPerHour := 0.0
	if wall > 0 {
		runsPerHour = float64(t.runs) / wall * 3600
	}
	cov := map[string]any{
		"evaluations":                      t.runs,
		"distinct_nontrivial":              len(t.nontriv),
		"rule":                             spec.Rule + " A case is one simulated run = one run seed = one choice tape; runs are distinct when the hash of their sequence of scheduling decisions (creation-order identity of the goroutine released at every scheduling point) differs; a run is non-trivial when at least one pre-emption of a still-runnable goroutine happened or at least one injected fault fired.",
		"samples":                          samples,
		"distinct_schedules":               len(t.hashes),
		"runs_in_race_binary":              t.raceRuns,
		"race_reports":                     t.raceReports,
		"race_reports_inside_harness_only": t.harnessRaces,
		"runs_with_preemption":             t.preempted,
		"scheduling_decisions":             t.steps,
		"simulated_seconds":                float64(t.simNs) / 1e9,
		"runs_per_hour":                    runsPerHour,
		"verif_seed":                       base,
		"draws_by_kind":                    t.kinds,
		"faults_fired":                     faults,
		"reach_counters":                   reach,
		"runs_per_variant":                 t.perVar,
		"unregistered_goroutines_seen":     t.ext,
		"goroutines_created":               t.created,
		"real_components":                  spec.Real,
		"stubbed_components":               spec.Stubs,
		"known_findings_hit":               knownHit,
		"tree_key":                         key,
		"exhaustive":                       false,
	}
	ev := map[string]any{
		"property_id": prop,
		"tier":        tier,
		"seed":        int64(base & 0x7fffffffffffffff),
		"level":       spec.Level,
		"coverage":    cov,
		"assumptions": spec.Assume,
		"wall_s":      wall,
		"violations":  newViol,
	}
	os.MkdirAll(filepath.Join(verifRoot, "evidence"), 0o755)
	b, _ := json.MarshalIndent(ev, "", " ")
	os.WriteFile(filepath.Join(verifRoot, "evidence", prop+".json"), b, 0o644)
}
