#!/bin/bash
# brings the loopback interface of a fresh network namespace up, then runs the command
ip link set lo up 2>/dev/null
exec "$@"
