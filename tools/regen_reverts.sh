#!/bin/bash
# regenerates mutants/revert-*.patch (one per "fix:" commit in /repo) as diffs against /repo's HEAD
cd /repo || exit 1
git log --format='%h %s' | grep ' fix: ' | while read sha rest; do
  name=$(echo "$rest" | sed 's/^fix: //; s/[^a-zA-Z0-9]\+/-/g' | cut -c1-50 | sed 's/-$//')
  rm -rf /var/tmp/rv-wt; git worktree add -q --detach /var/tmp/rv-wt HEAD
  if (cd /var/tmp/rv-wt && git revert -n $sha >/dev/null 2>&1); then
    (cd /var/tmp/rv-wt && git diff HEAD) > /verif/mutants/revert-$sha-$name.patch
    echo "ok   $sha $name"
  else
    echo "CONFLICT $sha $name"
  fi
  git worktree remove --force /var/tmp/rv-wt
done
