#!/bin/bash
# usage: tools/verify_seeded.sh <seeded-id> [demo test regex] [package]  - confirms in a fresh scratch worktree of /repo that
#   (1) with patch.diff the module builds and the repository's test suite passes, (2) the demonstration fails with the
#   patch, (3) the demonstration passes without it. Prints a summary for meta.json.
set -uo pipefail
cd "$(dirname "$0")/.."
id=$1; rx=${2:-Seeded}; pkg=${3:-./...}
export GOFLAGS=-mod=mod GOPROXY=off GOSUMDB=off GOTOOLCHAIN=local PATH=/opt/veriftools/go1.26.8/bin:$PATH
wt=/tmp/verify-$id
# the repository's tests bind fixed loopback ports: run them in a private network namespace when possible
NS=""; if unshare -n true 2>/dev/null; then NS="unshare -n /verif/tools/withlo.sh"; fi
git -C /repo worktree remove --force $wt 2>/dev/null; rm -rf $wt
git -C /repo worktree add -q --detach $wt HEAD
trap 'git -C /repo worktree remove --force '$wt' 2>/dev/null' EXIT
cp -r seeded/$id/demo/. $wt/
echo "== demo WITHOUT the change"
(cd $wt && $NS go test -vet=off -count=1 -timeout 600s -run "$rx" $pkg 2>&1 | grep -E "^(ok|FAIL|---|panic)" | head -8)
(cd $wt && git apply $OLDPWD/seeded/$id/patch.diff) || { echo "PATCH DOES NOT APPLY"; exit 3; }
echo "== build WITH the change"; (cd $wt && go build ./... && echo build-ok)
echo "== demo WITH the change"
(cd $wt && $NS go test -vet=off -count=1 -timeout 600s -run "$rx" $pkg 2>&1 | grep -E "^(ok|FAIL|---|panic)" | head -8)
echo "== existing suite WITH the change (demo files removed)"
(cd $wt && git ls-files --others --exclude-standard | xargs -r rm -f; $NS go test -vet=off -count=1 -timeout 900s ./... 2>&1 | grep -v "no test files" | grep -E "^(ok|FAIL|---)|^ +--- FAIL" | head -20)
