#!/bin/bash
# usage: tools/import_seeded.sh <seeded-id> <worktree>   - copies a sub-agent's change out of its scratch worktree:
#   seeded/<id>/patch.diff = uncommitted changes of tracked files; seeded/<id>/demo/ = untracked files (the demonstration)
set -euo pipefail
cd "$(dirname "$0")/.."
id=$1; wt=$2
mkdir -p seeded/$id/demo
git -C "$wt" diff > seeded/$id/patch.diff
git -C "$wt" ls-files --others --exclude-standard | while read -r f; do
  mkdir -p "seeded/$id/demo/$(dirname "$f")"; cp "$wt/$f" "seeded/$id/demo/$f"
done
echo "patch: $(wc -l < seeded/$id/patch.diff) lines; demo files:"; (cd seeded/$id/demo && find . -type f)
