#!/bin/bash
# Runs every mutant of mutants/INDEX.tsv (and every seeded change under seeded/*/patch.diff listed in seeded/INDEX.tsv)
# against the checks expected to catch it, on scratch copies of /repo; writes mutants/RESULTS.tsv.
# usage: tools/sensitivity.sh [quick|thorough] [index file]
cd "$(dirname "$0")/.."
tier=${1:-quick}
index=${2:-mutants/INDEX.tsv}
out=${index%INDEX.tsv}RESULTS.tsv
: > "$out"
grep -v '^#' "$index" | while IFS=$'\t' read -r patch props; do
  [ -z "$patch" ] && continue
  dir=$(dirname "$index")
  for p in $props; do
    res=$(tools/mutant.sh "$dir/$patch" $p --tier $tier --no-minimise 2>&1)
    code=$(echo "$res" | grep -o 'exit=[0-9]*' | tail -1)
    classes=$(echo "$res" | grep 'class:' | sed 's/^ *class: //; s/ ([0-9]* of [0-9]* runs)//' | head -3 | tr '\n' ';')
    verdict=MISSED
    [ "$code" = "exit=1" ] && verdict=CAUGHT
    [ "$code" = "exit=2" ] && verdict=UNDECIDED
    [ "$code" = "exit=3" ] && verdict=PATCH-FAILED
    echo "$res" | grep -q "^patch failed" && verdict=PATCH-FAILED
    printf '%s\t%s\t%s\t%s\n' "$patch" "$p" "$verdict" "$classes" | tee -a "$out"
  done
done
