#!/bin/bash
# usage: tools/mutant.sh <patch.diff> <PROPERTY> [vcheck args...]   - run a check against a scratch copy of /repo with a patch applied
set -uo pipefail
cd "$(dirname "$0")/.."
patch=$(realpath "$1"); shift
d=$(mktemp -d /var/tmp/vsim-mut-XXXXXX)
trap 'rm -rf "$d"' EXIT
rsync -a --exclude .git --exclude docs --exclude examples /repo/ "$d/"
( cd "$d" && patch -p1 -s < "$patch" ) || { echo "patch failed"; exit 3; }
VERIF_REPO="$d" VSIM_NO_EVIDENCE=1 bin/vcheck "$@"
echo "exit=$?"
