#!/usr/bin/env python3
# regenerates /verif/MANIFEST.json from the table below (single source of truth for the interface file)
import json, os
root = os.path.dirname(os.path.dirname(os.path.abspath(__file__)))

TB = ("Trusted: testing/synctest (fake clock, quiescence), the instrumenter's construct-level rewrites, the oracles in /verif/harness, the Go race "
      "detector where the -race variant is used. Assumes code between two scheduling points (atomic, lock and channel operations, lock releases in two thirds "
      "of the runs, goroutine spawns, map ranges) runs atomically; a clean batch is evidence for the explored bounds, not a proof.")

checks = {
 "C01": dict(level="exploration", ref="DESIGN.md 3 C01",
   text="Seeded search over interleavings of the real UnboundedMailbox/RingQueue code (every atomic op, lock and spawn is a scheduling point; uniform, sticky and PCT strategies) with in-run invariants (no overlapping handler, no duplicate, pause respected) and quiescence oracles (nothing stranded, no lost wake-up, no spin); thousands of distinct schedules per quick run, the same workload again in a -race build whose scheduler is invisible to the race detector.",
   technique="deterministic simulation: seeded cooperative scheduler over instrumented real code, component workload, in-run invariants + quiescence oracle"),
 "C02": dict(level="exploration", ref="DESIGN.md 3 C02",
   text="Seeded schedule search: RingQueue under concurrent pushers/popper at every growth boundary against a per-pusher FIFO oracle, plus whole-system scenarios checking per-sender order at the behaviour across ring growth, immediate-kill-overtakes / poison-kill-after ordering and stash order against a reference slice.",
   technique="deterministic simulation: seeded scheduler, component + whole-system workloads, reference-model comparison"),
 "C03": dict(level="exploration", ref="DESIGN.md 3 C03",
   text="Seeded search over whole-system histories with sends racing lifecycle transitions (kill, failure + drawn supervision decision, restart, zombie) through every way of obtaining a reference; a quiescence oracle (the simulator knows when nothing can happen any more) accounts every message id to exactly one of processed / stashed / dead letter, and after Stop checks that further tells cause no work.",
   technique="deterministic simulation: seeded scheduler + fake clock, quiescence accounting over the recorded history"),
 "C07": dict(level="exploration", ref="DESIGN.md 3 C07",
   text="Drawn Start/Stop/cancel sequences (sequential against a reference state machine, and concurrent from 2-3 goroutines) under the seeded scheduler; blocked-forever detection at the horizon names the call and the lock, Stop's duration is measured on the simulated clock, and a leak oracle lists every goroutine of the system still alive after Stop.",
   technique="deterministic simulation: seeded scheduler, reference state machine, blocked-forever and goroutine-leak oracles"),
 "C04": dict(level="exploration", ref="DESIGN.md 3 C04",
   text="Seeded search over reply / timeout / asker-death / Close / PipeTo orders on the simulated clock: timeouts are compared with the exact simulated deadline, every waiter of every future must return the same outcome at the same instant, leaked registrations are read through an accessor at quiescence, and the same workload runs in a -race build in which the scheduler is invisible to the race detector, so unsynchronised accesses in the future/ask path are reported whenever a schedule executes both. One variant injects goroutine stalls (20 us - 300 ms of simulated time at scheduling points) and time-outs down to 1 us, so that timers fire in the middle of the code that armed them; it keeps only the timing-independent rules.",
   technique="deterministic simulation: seeded scheduler + fake clock, outcome oracle per future, -race variant as data-race oracle"),
 "C06": dict(level="exploration", ref="DESIGN.md 3 C06",
   text="Seeded search over tree shapes, kill targets, repeated/concurrent/poison kills, kills racing spawns and watch registrations; event-order and exactly-once oracles over the complete recorded history at quiescence, path release, stale subscriptions and jobs checked after termination.",
   technique="deterministic simulation: seeded scheduler + fake clock, event-order and exactly-once oracles over the recorded history"),
 "C08": dict(level="fault_enumeration", ref="DESIGN.md 3 C08",
   text="The failure dimension is enumerated completely within its bounds (576 cells: decision x strategy x failure site x panic/Failed x tree shape, plus failures while stopping), every cell visited repeatedly, each visit under a fresh seeded schedule; recording decision makers and the complete per-actor traces decide whether exactly the directive's targets were restarted / stopped / resumed and everybody else was left alone.",
   technique="deterministic simulation with enumerated fault injection (failure matrix) and sampled schedules"),
 "C09": dict(level="fault_enumeration", ref="DESIGN.md 3 C09",
   text="The same enumerated failure matrix with a burst queued around the failing message, plus zombie (failing restart hooks, later group decisions that reach the zombie), nested concurrent failures, failures while stopping and mail that fails while its subtree or the system is being stopped (supervisors answering anything, including Escalate and out-of-range values); 'stuck' is decided, not approximated: at quiescence an accessor lists paused or half-stopped contexts, and numbered probes sent afterwards must be processed by every living actor and dead-lettered for every stopped one.",
   technique="deterministic simulation with enumerated fault injection, quiescence oracle + probe traffic"),
 "C10": dict(level="exploration", ref="DESIGN.md 3 C10, 2.6",
   text="Outside goroutines hammer the documented-concurrent API while supervised trees spawn, fail, restart and die; most runs execute in a -race build in which every scheduler hand-off is hidden from ThreadSanitizer (RaceDisable + //go:norace runtime), so two accesses to vivid state that any explored schedule executes without real synchronisation between them are reported deterministically, not by lucky timing; the plain build checks for panics and tree consistency at quiescence through an accessor. A self-test (vcheck SELF / SELFNEG) shows ordered chains are not reported and unordered accesses are.",
   technique="deterministic simulation + Go race detector with the simulator made invisible (race oracle), tree-consistency oracle at quiescence"),
 "C11": dict(level="exploration", ref="DESIGN.md 3 C11",
   text="Real systems with real remoting code talk over an in-memory network whose read chunking (everything available / one byte / uniform / frame-aligned / mixed) and latency are drawn per run, i.e. the simulator - not kernel timing - decides how the TCP byte stream is split into reads; bursts, sizes, directions, Tell/Ask/user-codec flows and idle periods are drawn; a sequence-and-checksum oracle per flow.",
   technique="deterministic simulation: in-memory transport with seeded read chunking and latency under the seeded scheduler, sequence oracle"),
 "C14": dict(level="fault_enumeration", ref="DESIGN.md 3 C14",
   text="The cut offset of a fixed multi-frame stream is enumerated byte by byte from the run ordinal (handshake, length prefixes, bodies, frame boundaries) together with EOF/RST, immediate/late write error and retry settings, each visit under a fresh seeded schedule; refused dials, peer restarts, resets, bad frames from a fake peer and Tell to an unreachable peer are sampled; subsequence / dead-letter / bounded-recovery / zero-simulated-time-Tell oracles.",
   technique="deterministic simulation: in-memory transport with enumerated cut offsets and sampled connection faults, subsequence and bounded-liveness oracles"),
 "C15": dict(level="exploration", ref="DESIGN.md 3 C15",
   text="A differential oracle: every ActorRef-taking operation (enumerated from the run ordinal, with and without a user Codec) is executed by the same actor against an identical local and remote target inside one simulated run over the in-memory network, and the multisets of observable outcomes must be equal; each visit uses a fresh seeded schedule and mixed read chunking.",
   technique="deterministic simulation: differential local-vs-remote execution over the in-memory transport"),
 "C17": dict(level="exploration", ref="DESIGN.md 3 C17",
   text="The property quantifies over views reachable by histories of joins, restarts, status changes and merges under reordering, partitions and clock skew: the cluster simulation produces exactly those, a probe inserted at MergeFromWithOptions checks every merge the real node actors perform (never removes, never regresses, newest incarnation wins, epoch/version-vector entries monotone, changed flag), and the views that were actually gossiped are re-merged in every order of pairs and triples afterwards.",
   technique="deterministic simulation of the cluster under faults as generator of reachable views, per-merge monitors (instrumenter probe) + order-permutation re-merge over the recorded history"),
 "C18": dict(level="exploration", ref="DESIGN.md 3 C18",
   text="2-7 real nodes with remoting and gossip membership in one simulation on one fake clock: minutes of simulated time (40 s timeouts cost microseconds), a drawn fault phase (connection resets, partitions and heals, crash/restart with the same or a new node id, graceful leaves, slow nodes, clock jumps) followed by a bounded quiet phase after which membership, leader and stability are checked on every running node through its real mailbox.",
   technique="deterministic simulation: multi-node in-memory network, seeded fault schedule, bounded-liveness oracle after faults stop"),
 "C19": dict(level="exploration", ref="DESIGN.md 3 C19",
   text="Concurrent Subscribe/Unsubscribe/UnsubscribeAll/Publish histories with subscriber kills and restarts, stamped with the simulator's global event sequence number and checked for linearizability against a set model with porcupine; plus duplicate, order, post-termination and stale-table-entry oracles.",
   technique="deterministic simulation: seeded scheduler, recorded history checked with porcupine against a sequential model"),
 "C20": dict(level="exploration", ref="DESIGN.md 3 C20",
   text="go-quartz runs for real on the simulated clock; Once/Loop/Cron jobs with drawn periods and references, disruptions (Cancel, Clear, owner kill, owner restart) placed strictly between and exactly at firing instants; the set of delivery instants of every job is compared with the exact expected instants, nothing may fire after the end of a job.",
   technique="deterministic simulation: fake clock + seeded scheduler, exact firing-instant oracle"),
 "C05": dict(level="exploration", ref="DESIGN.md 3 C05",
   text="Seeded search over whole-system histories (spawns, tells, failures at OnLaunch / user message / child's OnKilled / scheduled message, drawn supervision decisions, kills, Stop) on a real ActorSystem under the simulated scheduler and clock; every actor's complete behaviour-visible trace is checked per incarnation against the automaton OnLaunch any* [OnKill] OnKilled(self).",
   technique="deterministic simulation: seeded scheduler + fake clock, failure injection at lifecycle sites, per-actor trace automaton"),
}

not_applicable = {
 "C12": "pure function of its input (decode(encode(x)) == x): no schedule, clock, fault or interleaving for a simulator to control; input generation is a different technique (DESIGN.md 5)",
 "C13": "quantified over byte strings and Go values only (codec totality): a pure function of its input, not a simulation target; the decode path is exercised incidentally by C14's cut/bad-frame faults (DESIGN.md 5)",
 "C16": "algebraic laws of pure value operations on version vectors: no time, scheduling or fault dimension (DESIGN.md 5)",
}
pending = {}
for i in range(1, 21):
    pid = "C%02d" % i
    if pid not in checks and pid not in not_applicable:
        pending[pid] = "check not built yet in this revision (see DESIGN.md 3 for the design); not claimed"

m = {
 "version": 1,
 "setup_cmd": "./setup.sh",
 "hooks": {
   "guard": "vsim",
   "enable": "no hook is committed to /repo: every check copies /repo's working tree to a scratch directory, rewrites the copy with bin/vsim-instrument (sync, sync/atomic, go statements, time, net, uuid, math/rand, map ranges, selects -> simulator shims) and compiles the harness (files tagged //go:build vsim) into it with -tags vsim",
   "baseline_off_cmd": "cd /repo && GOFLAGS=-mod=mod GOPROXY=off GOSUMDB=off GOTOOLCHAIN=local /opt/veriftools/go1.26.8/bin/go test -vet=off -count=1 -timeout 25m ./...",
   "source_commits": [],
   "add_only": True,
 },
 "engines": [
   {"name": "vsim", "path": "bin/vcheck", "serves_properties": sorted(checks.keys()),
    "kind_free_text": "deterministic simulation with fault injection: AST instrumentation of a scratch copy, seeded cooperative scheduler inside a testing/synctest bubble (simrt), in-memory network (simnet), choice-tape replay and minimisation, race oracle via a -race build whose scheduler is invisible to TSan"},
 ],
 "checks": [],
 "not_applicable": [{"property_id": k, "reason": v} for k, v in sorted({**not_applicable, **pending}.items())],
 "notes": "Exit codes of every command: 0 held, 1 with a VIOLATION line, 2 could not decide (build/watchdog/divergence). VERIF_SEED selects the batch of run seeds. Known findings: known_findings.json. Design: DESIGN.md.",
}
for pid in sorted(checks):
    c = checks[pid]
    m["checks"].append({
      "property_id": pid,
      "quick_cmd": "bin/vcheck %s --tier quick" % pid,
      "thorough_cmd": "bin/vcheck %s --tier thorough" % pid,
      "evidence_file": "/verif/evidence/%s.json" % pid,
      "replay_cmd_template": "bin/vcheck replay {path}",
      "engine": "vsim",
      "level_claimed": {"category": c["level"], "text": c["text"], "design_ref": c["ref"]},
      "level_note": TB,
      "technique": c["technique"],
    })
json.dump(m, open(os.path.join(root, "MANIFEST.json"), "w"), indent=1)
print("checks:", [c["property_id"] for c in m["checks"]], "not claimed:", len(m["not_applicable"]))
