// Package simrand is swapped in for math/rand and math/rand/v2 top-level functions: draws come from the tape.
package simrand

import "vsimrt/simrt"

func Intn(n int) int { return simrt.Choose(simrt.KRand, n) }
func IntN(n int) int { return simrt.Choose(simrt.KRand, n) }
func Int63n(n int64) int64 {
	if n > 1<<30 {
		return int64(simrt.Choose(simrt.KRand, 1<<30)) * (n >> 30)
	}
	return int64(simrt.Choose(simrt.KRand, int(n)))
}
func Int64N(n int64) int64 { return Int63n(n) }
func Float64() float64 {
	return float64(simrt.Choose(simrt.KRand, 1<<30)) / float64(1<<30)
}
func Shuffle(n int, swap func(i, j int)) {
	for i := n - 1; i > 0; i-- {
		j := simrt.Choose(simrt.KRand, i+1)
		swap(i, j)
	}
}
func Perm(n int) []int {
	p := make([]int, n)
	for i := range p {
		p[i] = i
	}
	Shuffle(n, func(i, j int) { p[i], p[j] = p[j], p[i] })
	return p
}
