module vsimrt
go 1.26
