// Package simnet (prototype): in-memory TCP replacement under the simulated scheduler and bubble clock.
package simnet

import (
	"crypto/tls"
	"errors"
	"fmt"
	"io"
	"net"
	"os"
	"sync"
	"time"

	"vsimrt/simrt"
)

type addr string

func (a addr) Network() string { return "tcp" }
func (a addr) String() string  { return string(a) }

// Net is one simulated network; create it inside the bubble.
type Net struct {
	mu        sync.Mutex
	listeners map[string]*listener
	conns     []*conn
	nextPort  int
	ChunkMode int // 0 everything available, 1 one byte, 2 random
	Refuse    map[string]bool
	Stats     struct{ Dials, Refused, Reads, PartialReads, Writes, Bytes, Cuts int }
}

var cur *Net

func New() *Net {
	n := &Net{listeners: map[string]*listener{}, nextPort: 40000, Refuse: map[string]bool{}}
	cur = n
	return n
}

type listener struct {
	n      *Net
	a      string
	accept chan *conn
	closed chan struct{}
	once   sync.Once
}

func ListenTCP(network string, laddr *net.TCPAddr) (net.Listener, error) {
	return listen(laddr.String())
}

func ListenTLS(network, laddr string, _ *tls.Config) (net.Listener, error) { return listen(laddr) }

func listen(a string) (net.Listener, error) {
	n := cur
	n.mu.Lock()
	defer n.mu.Unlock()
	if _, ok := n.listeners[a]; ok {
		return nil, fmt.Errorf("listen tcp %s: bind: address already in use", a)
	}
	l := &listener{n: n, a: a, accept: make(chan *conn, 64), closed: make(chan struct{})}
	n.listeners[a] = l
	return l, nil
}

func (l *listener) Accept() (net.Conn, error) {
	select {
	case c := <-l.accept:
		simrt.Yield()
		return c, nil
	case <-l.closed:
		simrt.Yield()
		return nil, net.ErrClosed
	}
}

func (l *listener) Close() error {
	l.once.Do(func() {
		l.n.mu.Lock()
		delete(l.n.listeners, l.a)
		l.n.mu.Unlock()
		close(l.closed)
	})
	return nil
}

func (l *listener) Addr() net.Addr { return addr(l.a) }

// half is one direction of a connection.
type half struct {
	buf    []byte
	closed bool // writer closed: reader gets EOF after draining
	reset  bool
	avail  chan struct{}
}

type conn struct {
	n            *Net
	local, peer  addr
	rd, wr       *half
	rdl          time.Time
	rdlChanged   chan struct{}
	selfClosed   bool
	other        *conn
	bytesWritten int
}

func Dial(network, address string) (net.Conn, error) {
	simrt.Yield()
	n := cur
	n.mu.Lock()
	n.Stats.Dials++
	l, ok := n.listeners[address]
	if !ok || n.Refuse[address] {
		n.Stats.Refused++
		n.mu.Unlock()
		return nil, &net.OpError{Op: "dial", Net: "tcp", Err: errors.New("connection refused")}
	}
	n.nextPort++
	la := addr(fmt.Sprintf("10.0.0.1:%d", n.nextPort))
	a2b := &half{avail: make(chan struct{}, 1)}
	b2a := &half{avail: make(chan struct{}, 1)}
	c := &conn{n: n, local: la, peer: addr(address), rd: b2a, wr: a2b, rdlChanged: make(chan struct{}, 1)}
	s := &conn{n: n, local: addr(address), peer: la, rd: a2b, wr: b2a, rdlChanged: make(chan struct{}, 1)}
	c.other, s.other = s, c
	n.conns = append(n.conns, c, s)
	n.mu.Unlock()
	select {
	case l.accept <- s:
	default:
		return nil, &net.OpError{Op: "dial", Net: "tcp", Err: errors.New("backlog full")}
	}
	return c, nil
}

func signal(ch chan struct{}) {
	select {
	case ch <- struct{}{}:
	default:
	}
}

func (c *conn) Read(p []byte) (int, error) {
	for {
		c.n.mu.Lock()
		c.n.Stats.Reads++
		if c.selfClosed {
			c.n.mu.Unlock()
			return 0, net.ErrClosed
		}
		if len(c.rd.buf) > 0 {
			k := len(c.rd.buf)
			if k > len(p) {
				k = len(p)
			}
			switch c.n.ChunkMode {
			case 1:
				k = 1
			case 2:
				k = 1 + simrt.Choose(simrt.KNet, k)
			}
			if k < len(c.rd.buf) {
				c.n.Stats.PartialReads++
			}
			copy(p, c.rd.buf[:k])
			c.rd.buf = c.rd.buf[k:]
			c.n.mu.Unlock()
			return k, nil
		}
		if c.rd.reset {
			c.n.mu.Unlock()
			return 0, &net.OpError{Op: "read", Net: "tcp", Err: errors.New("connection reset by peer")}
		}
		if c.rd.closed {
			c.n.mu.Unlock()
			return 0, io.EOF
		}
		dl := c.rdl
		c.n.mu.Unlock()
		var timer <-chan time.Time
		if !dl.IsZero() {
			d := time.Until(dl)
			if d <= 0 {
				return 0, os.ErrDeadlineExceeded
			}
			t := time.NewTimer(d)
			timer = t.C
			// only rd.avail can be ready on entry (the timer was created just now with d > 0):
			// a select with two ready cases would be resolved by the runtime's unseeded PRNG
			select {
			case <-c.rd.avail:
			case <-timer:
			}
			t.Stop()
		} else {
			<-c.rd.avail
		}
		simrt.Yield()
	}
}

func (c *conn) Write(p []byte) (int, error) {
	simrt.Yield()
	c.n.mu.Lock()
	defer c.n.mu.Unlock()
	c.n.Stats.Writes++
	if c.selfClosed {
		return 0, net.ErrClosed
	}
	if c.wr.reset || c.wr.closed {
		return 0, &net.OpError{Op: "write", Net: "tcp", Err: errors.New("broken pipe")}
	}
	c.wr.buf = append(c.wr.buf, p...)
	c.bytesWritten += len(p)
	c.n.Stats.Bytes += len(p)
	signal(c.wr.avail)
	return len(p), nil
}

func (c *conn) Close() error {
	c.n.mu.Lock()
	defer c.n.mu.Unlock()
	if c.selfClosed {
		return nil
	}
	c.selfClosed = true
	c.wr.closed = true // peer reads EOF after draining
	c.rd.reset = true  // peer writes fail
	c.rd.closed = true
	signal(c.wr.avail)
	signal(c.rd.avail)
	return nil
}

// Cut resets the connection in both directions (fault).
func (c *conn) cut() {
	c.rd.reset, c.wr.reset = true, true
	signal(c.rd.avail)
	signal(c.wr.avail)
}

func (n *Net) CutAll() {
	n.mu.Lock()
	defer n.mu.Unlock()
	for _, c := range n.conns {
		if !c.selfClosed {
			c.cut()
			n.Stats.Cuts++
		}
	}
}

func (c *conn) LocalAddr() net.Addr  { return c.local }
func (c *conn) RemoteAddr() net.Addr { return c.peer }
func (c *conn) SetDeadline(t time.Time) error {
	_ = c.SetReadDeadline(t)
	return nil
}
func (c *conn) SetReadDeadline(t time.Time) error {
	c.n.mu.Lock()
	c.rdl = t
	c.n.mu.Unlock()
	signal(c.rd.avail)
	return nil
}
func (c *conn) SetWriteDeadline(t time.Time) error { return nil }
