// Package simnet is the only network the simulated system sees (DESIGN.md 2.4): an in-memory TCP replacement
// under the simulated scheduler and the bubble clock, with seeded read chunking, latency and injected faults.
//
// Rules kept throughout: the package mutex is a real mutex that is never held across a scheduling point or a
// blocking operation; every blocking wait has at most one case that can be ready on entry (one wake channel per
// waiter, timers created on entry), because a select with two ready cases would be resolved by the Go runtime's
// unseeded PRNG and break replay.
package simnet

import (
	"crypto/tls"
	"errors"
	"fmt"
	"io"
	"net"
	"os"
	"sync"
	"time"

	"vsimrt/simrt"
)

type addr string

func (a addr) Network() string { return "tcp" }
func (a addr) String() string  { return string(a) }

// Read chunking modes.
const (
	ChunkAll     = iota // everything available (maximal coalescing)
	ChunkOne            // one byte per Read (maximal splitting)
	ChunkUniform        // uniform in [1, available]
	ChunkFrame          // up to the next Write boundary (what loopback tests always see)
	ChunkMixed          // a fresh draw among the above per Read
)

// Stats counts what actually happened (fired, not merely configured).
type Stats struct {
	Dials, Refused, Blackholed, PartitionRefused int
	Reads, PartialReads, CoalescedReads          int // partial: less than available; coalesced: spanning a Write boundary
	Writes, Bytes                                int
	Cuts, CutEOF, CutRST                         int
	WriteErrLate, WriteErrNow                    int
	Partitions, Heals, Crashes                   int
	Delayed                                      int
	WriteDeadline                                int
}

// Net is one simulated network; create it inside the bubble, before any system starts.
type Net struct {
	mu        sync.Mutex
	listeners map[string]*listener
	conns     []*conn
	nextPort  int
	nodeOf    map[string]int // listen address -> node tag

	ChunkMode    int
	MinLatency   time.Duration
	Jitter       time.Duration
	LateWriteErr int // percent of connections on which a write after the peer went away fails one write late (as real TCP)

	refuse    map[string]bool
	blackhole map[string]bool
	part      map[[2]int]bool
	Stats     Stats
	// cut plans: applied to the next connection dialled to the address
	cutPlans map[string][]*CutPlan
}

// CutPlan cuts a connection after a stream offset (in the dialler->listener direction unless Reverse).
type CutPlan struct {
	Offset  int  // bytes delivered before the cut
	RST     bool // reader sees ECONNRESET instead of EOF
	Reverse bool // count bytes of the listener->dialler direction
	fired   bool
}

var cur *Net

func New() *Net {
	n := &Net{listeners: map[string]*listener{}, nextPort: 40000, nodeOf: map[string]int{}, refuse: map[string]bool{}, blackhole: map[string]bool{},
		part: map[[2]int]bool{}, cutPlans: map[string][]*CutPlan{}, LateWriteErr: 50}
	cur = n
	return n
}

func Current() *Net { return cur }

// RegisterNode tells the network which node (simrt tag) listens on address.
func (n *Net) RegisterNode(address string, tag int) {
	n.mu.Lock()
	n.nodeOf[address] = tag
	n.mu.Unlock()
}

type listener struct {
	n      *Net
	a      string
	accept chan *conn
	closed chan struct{}
	once   sync.Once
}

func ListenTCP(network string, laddr *net.TCPAddr) (net.Listener, error) {
	return listen(laddr.String())
}

func ListenTLS(network, laddr string, _ *tls.Config) (net.Listener, error) { return listen(laddr) }

func listen(a string) (net.Listener, error) {
	n := cur
	if n == nil {
		return nil, errors.New("simnet: no network")
	}
	n.mu.Lock()
	defer n.mu.Unlock()
	if _, ok := n.listeners[a]; ok {
		return nil, &net.OpError{Op: "listen", Net: "tcp", Err: errors.New("bind: address already in use")}
	}
	l := &listener{n: n, a: a, accept: make(chan *conn, 256), closed: make(chan struct{})}
	n.listeners[a] = l
	return l, nil
}

func (l *listener) Accept() (net.Conn, error) {
	// closed is checked first without blocking so that at most the accept channel can be ready when we block
	select {
	case <-l.closed:
		simrt.Yield()
		return nil, net.ErrClosed
	default:
	}
	select {
	case c := <-l.accept:
		simrt.Yield()
		if c == nil {
			return nil, net.ErrClosed
		}
		return c, nil
	}
}

func (l *listener) Close() error {
	l.once.Do(func() {
		l.n.mu.Lock()
		if l.n.listeners[l.a] == l {
			delete(l.n.listeners, l.a)
		}
		l.n.mu.Unlock()
		close(l.closed)
		// wake a blocked Accept (a nil connection means closed); never blocks: the channel is large and we only try
		select {
		case l.accept <- nil:
		default:
		}
	})
	return nil
}

func (l *listener) Addr() net.Addr { return addr(l.a) }

type segment struct {
	data    []byte
	readyAt time.Time
	end     bool // last byte of a Write call (frame boundary for ChunkFrame)
}

// half is one direction of a connection.
type half struct {
	segs         []segment
	pending      int  // unread bytes
	closed       bool // writer closed: reader gets EOF after draining
	reset        bool // reader gets ECONNRESET after draining
	written      int  // total bytes accepted
	cut          *CutPlan
	avail        chan struct{}
	lastReady    time.Time
	writerGone   bool // the reading side went away: writes fail
	lateErrArmed bool
}

type conn struct {
	n                 *Net
	local, peer       addr
	rd, wr            *half
	rdl               time.Time
	wdl               time.Time
	selfClosed        bool
	other             *conn
	tagLocal, tagPeer int
	stalled           bool // partition with stall: nothing moves
	lateErr           bool
}

func tagOfCaller() int { return simrt.CurTag() }

func Dial(network, address string) (net.Conn, error) {
	simrt.Yield()
	n := cur
	if n == nil {
		return nil, errors.New("simnet: no network")
	}
	me := tagOfCaller()
	n.mu.Lock()
	n.Stats.Dials++
	if n.blackhole[address] {
		n.Stats.Blackholed++
		n.mu.Unlock()
		simrt.CountFault(2)
		time.Sleep(30 * time.Second)
		simrt.Yield()
		return nil, &net.OpError{Op: "dial", Net: "tcp", Err: os.ErrDeadlineExceeded}
	}
	l, ok := n.listeners[address]
	peerTag, known := n.nodeOf[address]
	if known && n.part[pair(me, peerTag)] {
		n.Stats.PartitionRefused++
		n.mu.Unlock()
		simrt.CountFault(3)
		return nil, &net.OpError{Op: "dial", Net: "tcp", Err: errors.New("connect: no route to host (partition)")}
	}
	if !ok || n.refuse[address] || (known && simrt.IsFrozen(peerTag)) {
		n.Stats.Refused++
		n.mu.Unlock()
		simrt.CountFault(1)
		return nil, &net.OpError{Op: "dial", Net: "tcp", Err: errors.New("connect: connection refused")}
	}
	n.nextPort++
	la := addr(fmt.Sprintf("10.0.0.%d:%d", 1+me%250, n.nextPort))
	a2b := &half{avail: make(chan struct{}, 1)}
	b2a := &half{avail: make(chan struct{}, 1)}
	if plans := n.cutPlans[address]; len(plans) > 0 {
		p := plans[0]
		n.cutPlans[address] = plans[1:]
		if p.Reverse {
			b2a.cut = p
		} else {
			a2b.cut = p
		}
	}
	late := simrt.Choose(simrt.KNet, 100) < n.LateWriteErr
	c := &conn{n: n, local: la, peer: addr(address), rd: b2a, wr: a2b, tagLocal: me, tagPeer: peerTag, lateErr: late}
	s := &conn{n: n, local: addr(address), peer: la, rd: a2b, wr: b2a, tagLocal: peerTag, tagPeer: me, lateErr: late}
	c.other, s.other = s, c
	n.conns = append(n.conns, c, s)
	n.mu.Unlock()
	select {
	case l.accept <- s:
	default:
		return nil, &net.OpError{Op: "dial", Net: "tcp", Err: errors.New("connect: backlog full")}
	}
	return c, nil
}

func pair(a, b int) [2]int {
	if a > b {
		a, b = b, a
	}
	return [2]int{a, b}
}

func signal(ch chan struct{}) {
	select {
	case ch <- struct{}{}:
	default:
	}
}

func (c *conn) Read(p []byte) (int, error) {
	if len(p) == 0 {
		return 0, nil
	}
	for {
		c.n.mu.Lock()
		if c.selfClosed {
			c.n.mu.Unlock()
			return 0, net.ErrClosed
		}
		now := time.Now()
		h := c.rd
		if !c.stalled && len(h.segs) > 0 && !h.segs[0].readyAt.After(now) {
			// bytes readable now: everything whose readyAt has passed
			avail := 0
			firstBoundary := 0
			for _, s := range h.segs {
				if s.readyAt.After(now) {
					break
				}
				avail += len(s.data)
				if firstBoundary == 0 && s.end {
					firstBoundary = avail
				}
			}
			k := avail
			if k > len(p) {
				k = len(p)
			}
			mode := c.n.ChunkMode
			if mode == ChunkMixed {
				mode = simrt.Choose(simrt.KNet, 4)
			}
			switch mode {
			case ChunkOne:
				k = 1
			case ChunkUniform:
				k = 1 + simrt.Choose(simrt.KNet, k)
			case ChunkFrame:
				if firstBoundary > 0 && firstBoundary < k {
					k = firstBoundary
				}
			}
			c.n.Stats.Reads++
			if k < avail {
				c.n.Stats.PartialReads++
			}
			if firstBoundary > 0 && k > firstBoundary {
				c.n.Stats.CoalescedReads++
			}
			// copy k bytes out
			out := 0
			for out < k {
				s := &h.segs[0]
				m := copy(p[out:k], s.data)
				out += m
				if m == len(s.data) {
					h.segs = h.segs[1:]
				} else {
					s.data = s.data[m:]
				}
			}
			h.pending -= k
			c.n.mu.Unlock()
			simrt.Progress()
			return k, nil
		}
		if len(h.segs) == 0 {
			if h.reset {
				c.n.mu.Unlock()
				return 0, &net.OpError{Op: "read", Net: "tcp", Err: errors.New("connection reset by peer")}
			}
			if h.closed {
				c.n.mu.Unlock()
				return 0, io.EOF
			}
		}
		dl := c.rdl
		var wakeAt time.Time
		if len(h.segs) > 0 && !c.stalled {
			wakeAt = h.segs[0].readyAt
		}
		c.n.mu.Unlock()
		if !dl.IsZero() && !dl.After(now) {
			return 0, os.ErrDeadlineExceeded
		}
		if !dl.IsZero() && (wakeAt.IsZero() || dl.Before(wakeAt)) {
			wakeAt = dl
		}
		if !wakeAt.IsZero() {
			t := time.NewTimer(wakeAt.Sub(now))
			// only rd.avail can be ready on entry (the timer was created just now with a positive duration)
			select {
			case <-h.avail:
			case <-t.C:
			}
			t.Stop()
		} else {
			<-h.avail
		}
		simrt.Yield()
	}
}

func (c *conn) Write(p []byte) (int, error) {
	simrt.Yield()
	c.n.mu.Lock()
	c.n.Stats.Writes++
	if c.selfClosed {
		c.n.mu.Unlock()
		return 0, net.ErrClosed
	}
	if !c.wdl.IsZero() && !c.wdl.After(time.Now()) {
		// deadlines are absolute: a write after the deadline fails without writing anything
		c.n.Stats.WriteDeadline++
		c.n.mu.Unlock()
		return 0, os.ErrDeadlineExceeded
	}
	h := c.wr
	if h.writerGone || h.reset || h.closed {
		// the peer went away (closed, reset, crashed, cut). Real TCP accepts one more write before the RST comes back.
		if c.lateErr && !h.lateErrArmed {
			h.lateErrArmed = true
			c.n.Stats.WriteErrLate++
			c.n.mu.Unlock()
			return len(p), nil // swallowed
		}
		c.n.Stats.WriteErrNow++
		c.n.mu.Unlock()
		return 0, &net.OpError{Op: "write", Net: "tcp", Err: errors.New("broken pipe")}
	}
	deliver := p
	cutNow := false
	if h.cut != nil && !h.cut.fired && h.written+len(p) >= h.cut.Offset {
		deliver = p[:h.cut.Offset-h.written]
		cutNow = true
	}
	if len(deliver) > 0 {
		ready := time.Now()
		if c.n.MinLatency > 0 || c.n.Jitter > 0 {
			d := c.n.MinLatency
			if c.n.Jitter > 0 {
				d += time.Duration(simrt.Choose(simrt.KNet, int(c.n.Jitter/time.Microsecond)+1)) * time.Microsecond
			}
			ready = ready.Add(d)
			c.n.Stats.Delayed++
		}
		if ready.Before(h.lastReady) {
			ready = h.lastReady // order preserved
		}
		h.lastReady = ready
		h.segs = append(h.segs, segment{data: append([]byte(nil), deliver...), readyAt: ready, end: !cutNow})
		h.pending += len(deliver)
		h.written += len(deliver)
		c.n.Stats.Bytes += len(deliver)
	}
	if cutNow {
		h.cut.fired = true
		c.n.Stats.Cuts++
		if h.cut.RST {
			h.reset = true
			c.n.Stats.CutRST++
		} else {
			h.closed = true
			c.n.Stats.CutEOF++
		}
		h.writerGone = true // later writes in this direction fail (respecting the one-write-late knob)
		// the other direction dies as well
		o := c.rd
		o.writerGone = true
		if h.cut.RST {
			o.reset = true
		} else {
			o.closed = true
		}
		signal(o.avail)
		simrt.CountFault(0)
	}
	signal(h.avail)
	c.n.mu.Unlock()
	simrt.Progress()
	if cutNow {
		// A write whose bytes were all accepted before the cut succeeds (the kernel took them); the failure
		// surfaces on a later write. A write that crosses the cut is short: on "late error" connections it still
		// reports success (the bytes sit in the send buffer when the RST arrives), otherwise it returns the error.
		if len(deliver) == len(p) {
			return len(p), nil
		}
		if c.lateErr {
			c.n.mu.Lock()
			h.lateErrArmed = true
			c.n.Stats.WriteErrLate++
			c.n.mu.Unlock()
			return len(p), nil
		}
		return len(deliver), &net.OpError{Op: "write", Net: "tcp", Err: errors.New("connection reset by peer")}
	}
	return len(p), nil
}

func (c *conn) Close() error {
	c.n.mu.Lock()
	defer c.n.mu.Unlock()
	if c.selfClosed {
		return nil
	}
	c.selfClosed = true
	c.wr.closed = true     // peer reads EOF after draining
	c.rd.writerGone = true // peer writes fail
	signal(c.wr.avail)
	signal(c.rd.avail)
	return nil
}

// reset kills the connection in both directions (crash, partition with reset).
func (c *conn) resetLocked() {
	for _, h := range []*half{c.rd, c.wr} {
		h.reset = true
		h.writerGone = true
		signal(h.avail)
	}
}

func (c *conn) LocalAddr() net.Addr  { return c.local }
func (c *conn) RemoteAddr() net.Addr { return c.peer }
func (c *conn) SetDeadline(t time.Time) error {
	_ = c.SetWriteDeadline(t)
	return c.SetReadDeadline(t)
}
func (c *conn) SetReadDeadline(t time.Time) error {
	c.n.mu.Lock()
	c.rdl = t
	c.n.mu.Unlock()
	signal(c.rd.avail)
	return nil
}
func (c *conn) SetWriteDeadline(t time.Time) error {
	c.n.mu.Lock()
	c.wdl = t
	c.n.mu.Unlock()
	return nil
}

// ---- fault API (harness) ----

// PlanCut arranges that the next connection dialled to address is cut after offset bytes.
func (n *Net) PlanCut(address string, p *CutPlan) {
	n.mu.Lock()
	n.cutPlans[address] = append(n.cutPlans[address], p)
	n.mu.Unlock()
}

// Refuse makes dials to address fail (listener down) until Allow.
func (n *Net) Refuse(address string, on bool) {
	n.mu.Lock()
	n.refuse[address] = on
	n.mu.Unlock()
}

func (n *Net) Blackhole(address string, on bool) {
	n.mu.Lock()
	n.blackhole[address] = on
	n.mu.Unlock()
}

// Partition separates two nodes: new dials fail; existing connections are reset (reset=true) or stalled.
func (n *Net) Partition(a, b int, reset bool) {
	n.mu.Lock()
	n.part[pair(a, b)] = true
	n.Stats.Partitions++
	for _, c := range n.conns {
		if pair(c.tagLocal, c.tagPeer) == pair(a, b) && !c.selfClosed {
			if reset {
				c.resetLocked()
			} else {
				c.stalled = true
			}
		}
	}
	n.mu.Unlock()
	simrt.CountFault(4)
}

// Heal removes the partition; stalled connections resume.
func (n *Net) Heal(a, b int) {
	n.mu.Lock()
	delete(n.part, pair(a, b))
	n.Stats.Heals++
	for _, c := range n.conns {
		if pair(c.tagLocal, c.tagPeer) == pair(a, b) && c.stalled {
			c.stalled = false
			signal(c.rd.avail)
		}
	}
	n.mu.Unlock()
}

// CutAll resets every open connection between two nodes (or all connections if a<0).
func (n *Net) CutAll(a, b int) int {
	n.mu.Lock()
	k := 0
	for _, c := range n.conns {
		if c.selfClosed || c.rd.reset {
			continue
		}
		if a < 0 || pair(c.tagLocal, c.tagPeer) == pair(a, b) {
			c.resetLocked()
			k++
		}
	}
	n.Stats.Cuts += k / 2
	n.mu.Unlock()
	simrt.CountFault(0)
	return k / 2
}

// CrashNode removes the node's listeners and resets its connections (the node's goroutines are frozen by simrt.Freeze).
func (n *Net) CrashNode(tag int) {
	n.mu.Lock()
	n.Stats.Crashes++
	for a, l := range n.listeners {
		if n.nodeOf[a] == tag {
			delete(n.listeners, a)
			_ = l
		}
	}
	for _, c := range n.conns {
		if c.tagLocal == tag || c.tagPeer == tag {
			c.resetLocked()
		}
	}
	n.mu.Unlock()
	simrt.CountFault(5)
}

// StatsCopy returns the counters.
func (n *Net) StatsCopy() Stats {
	n.mu.Lock()
	defer n.mu.Unlock()
	return n.Stats
}

// InjectRaw dials address as a fake peer and returns the raw connection (bad-frame injection).
func (n *Net) InjectRaw(address string) (net.Conn, error) { return Dial("tcp", address) }
