//go:build !race

package simrt

func raceDisable() {}
func raceEnable()  {}

const RaceEnabled = false
