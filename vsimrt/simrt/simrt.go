// Package simrt is the seeded cooperative scheduler of the vivid simulation (DESIGN.md 2.2).
//
// One Sim exists per run. It lives inside a testing/synctest bubble: synctest supplies the fake clock
// and "everything is durably blocked" detection, simrt decides which registered goroutine runs next.
// All shared runtime state lives in slices allocated once per run (never grown) and is only touched
// from //go:norace functions between raceDisable/raceEnable, so that in a -race build the detector
// sees no happens-before edge through the scheduler (DESIGN.md 2.6).
package simrt

import (
	"runtime"
	"runtime/debug"
	"sync"
	"sync/atomic"
	"testing/synctest"
	"time"
	"unsafe"
)

const (
	stFree uint32 = iota
	stParked
	stRunning
	stBlocked
	stSettle
	stDone
	stPending // timer goroutine not fired yet
)

// Draw kinds recorded on the choice tape.
const (
	KSched uint8 = iota
	KMap
	KSelect
	KNet
	KFault
	KWork
	KRand
	nKinds
)

var KindNames = [...]string{"sched", "maporder", "select", "net", "fault", "workload", "sutrand"}

const MaxTags = 64

type gstate struct {
	seq     uint64 // creation sequence number: deterministic identity and sort key
	wake    chan struct{}
	state   uint32
	blocked unsafe.Pointer
	goid    uint64
	steps   uint64
	prio    uint64
	tag     int32
	site    string
	bsite   string // where it blocked on a sim lock
	isTimer bool
}

// Draw is one entry of the choice tape.
type Draw struct {
	K uint8
	N uint32
	V uint32
}

type tabEnt struct {
	goid uint64
	id   int32
}

// Config of one run.
type Config struct {
	UnlockYield bool // a scheduling point after every Unlock/RUnlock
	Seed      uint64
	MaxG      int // live goroutine slots
	MaxSteps  int
	MaxTape   int
	SpinLimit int    // scheduling points without any progress event => spin report (0 = off)
	Strategy  int    // 0 uniform, 1 sticky, 2 pct
	Sticky    uint64 // percent for sticky
	PCTDepth  int
	PCTLen    int    // expected length of the run in steps, for pct change points
	Replay    []Draw // if non-nil the tape is the choice source
	Strict    bool   // replay must match (kind,n) exactly
	Trace     bool   // keep a log of every scheduling decision with its call site
	MapPerm   bool   // permute map iteration order with the PRNG (else sorted)
	StallMean int    // > 0: a goroutine other than the harness body stalls (sleeps simulated time) at about every StallMean-th scheduling point
}

type Sim struct {
	cfg       Config
	mu        sync.Mutex
	gs        []gstate
	free      []int32
	nfree     int
	hi        int // slots ever used
	tab       []tabEnt
	tmask     uint64
	rs        uint64
	notify    chan struct{}
	rootG     uint64
	seq       uint64
	last      int
	lastSeq   uint64 // creation sequence number of the goroutine that ran last (slots are reused, sequence numbers are not)
	stallLeft int    // scheduling points until the next stall (Config.StallMean)
	Stalls    int    // stalls injected
	buf       []int

	tape    []Draw
	ntape   int
	rpos    int
	Diverge string

	Steps       int
	Ext         int
	Preempt     int
	Hash        uint64
	KindCount   [nKinds]int
	sinceProg   int
	ProgressN   uint64
	Created     int
	TimerWakes  int
	Aborted     bool
	stop        bool
	stopWhy     string
	mainID      int
	mainDone    bool
	frozen      [MaxTags]bool
	slow        [MaxTags]uint32 // percent chance a goroutine of the tag is skipped
	skew        [MaxTags]int64
	uuidN       uint64
	pctChange   [8]int
	pctN        int
	Log         []string
	nlog        int
	SpinInfo    string
	spinTracing int
	spinSites   [64]string
	nspin       int
	start       time.Time
	liveCount   int
	probes      [16]probeEnt
	nprobes     int
	PanicHook   func(v any, stack string)
	fence       []uint32 // race builds only: per-goroutine (by creation sequence) release slots, see Fence()
	Faults      [32]int  // per fault kind fired counters (indexed by harness-defined constants)
}

type probeEnt struct {
	name string
	fn   func(phase int, args []any)
}

var cur atomic.Pointer[Sim]

func Active() *Sim { return cur.Load() }

var epoch atomic.Uint64

// Epoch numbers the simulated runs of this process (0: none yet); process-wide caches of the instrumented code
// (simsync.Pool) are dropped when it changes.
func Epoch() uint64 { return epoch.Load() }

func New(cfg Config) *Sim {
	epoch.Add(1)
	if cfg.MaxG == 0 {
		cfg.MaxG = 1024
	}
	if cfg.MaxSteps == 0 {
		cfg.MaxSteps = 200000
	}
	if cfg.MaxTape == 0 {
		cfg.MaxTape = cfg.MaxSteps + 65536
	}
	tsz := 1
	for tsz < cfg.MaxG*8 {
		tsz <<= 1
	}
	s := &Sim{cfg: cfg, notify: make(chan struct{}, 1), last: -1, mainID: -1}
	s.stallLeft = cfg.StallMean
	s.gs = make([]gstate, cfg.MaxG)
	s.free = make([]int32, cfg.MaxG)
	s.buf = make([]int, 0, cfg.MaxG)
	s.tab = make([]tabEnt, tsz)
	s.tmask = uint64(tsz - 1)
	s.tape = make([]Draw, cfg.MaxTape)
	if cfg.Trace {
		s.Log = make([]string, cfg.MaxSteps+16)
	}
	if RaceEnabled {
		s.fence = make([]uint32, 1<<17)
	}
	s.rs = cfg.Seed*0x9E3779B97F4A7C15 + 0x1234567
	if s.rs == 0 {
		s.rs = 1
	}
	for i := 0; i < 4; i++ {
		s.rnd()
	}
	if cfg.Strategy == 2 {
		n := cfg.PCTDepth
		if n > len(s.pctChange) {
			n = len(s.pctChange)
		}
		l := cfg.PCTLen
		if l <= 0 {
			l = 1000
		}
		for i := 0; i < n; i++ {
			s.pctChange[i] = int(s.rnd() % uint64(l))
		}
		s.pctN = n
	}
	s.rootG = goid()
	// pre-warm std-lib once-initialised globals with race detection enabled (the scheduler loop runs with
	// sync events ignored, so a sync.Once executed there would look unsynchronised to later readers)
	if t := time.NewTimer(time.Hour); t != nil {
		t.Stop()
	}
	s.start = time.Now()
	cur.Store(s)
	return s
}

func (s *Sim) Close() { cur.Store(nil) }

//go:norace
func (s *Sim) rnd() uint64 {
	x := s.rs
	x ^= x << 13
	x ^= x >> 7
	x ^= x << 17
	s.rs = x
	return x * 0x2545F4914F6CDD1D
}

// draw is the single choice source: PRNG (recorded) or tape (replayed). gen, if non-nil, overrides the
// uniform PRNG value in generate mode (scheduling strategies).
//
//go:norace
func (s *Sim) draw(kind uint8, n int, gen func() int) int {
	if n <= 1 {
		return 0
	}
	var v int
	if s.cfg.Replay != nil {
		if s.rpos < len(s.cfg.Replay) {
			d := s.cfg.Replay[s.rpos]
			if s.cfg.Strict && (d.K != kind || int(d.N) != n) && s.Diverge == "" {
				s.Diverge = "tape entry " + itoa(s.rpos) + ": recorded (" + KindNames[d.K] + "," + itoa(int(d.N)) + ") but the run asked for (" + KindNames[kind] + "," + itoa(n) + ")"
			}
			v = int(d.V) % n
		} else {
			v = 0 // entries beyond the end of a tape read as 0 (minimised tapes drop trailing zeros)
		}
		s.rpos++
	} else if gen != nil {
		v = gen()
	} else {
		v = int(s.rnd() % uint64(n))
	}
	if s.ntape < len(s.tape) {
		s.tape[s.ntape] = Draw{kind, uint32(n), uint32(v)}
		s.ntape++
	}
	s.KindCount[kind]++
	return v
}

// Choose returns a value in [0,n); callable from any registered goroutine (serialised by construction).
func Choose(kind uint8, n int) int {
	s := Active()
	if s == nil || n <= 1 {
		return 0
	}
	raceDisable()
	s.mu.Lock()
	v := s.draw(kind, n, nil)
	s.mu.Unlock()
	raceEnable()
	return v
}

// Tape returns a copy of the choices made so far.
func (s *Sim) Tape() []Draw {
	raceDisable()
	defer raceEnable()
	return s.tapeCopy()
}

//go:norace
func (s *Sim) tapeCopy() []Draw {
	out := make([]Draw, s.ntape)
	copy(out, s.tape[:s.ntape])
	return out
}

//go:norace
func goid() uint64 {
	var buf [64]byte
	n := runtime.Stack(buf[:], false)
	var id uint64
	for i := 10; i < n; i++ {
		c := buf[i]
		if c < '0' || c > '9' {
			break
		}
		id = id*10 + uint64(c-'0')
	}
	return id
}

const tomb = ^uint64(0)

//go:norace
func (s *Sim) tabPut(g uint64, id int) {
	h := (g * 0x9E3779B97F4A7C15) >> 20 & s.tmask
	for {
		if s.tab[h].goid == 0 || s.tab[h].goid == tomb {
			s.tab[h].goid = g
			s.tab[h].id = int32(id)
			return
		}
		h = (h + 1) & s.tmask
	}
}

//go:norace
func (s *Sim) tabGet(g uint64) int {
	h := (g * 0x9E3779B97F4A7C15) >> 20 & s.tmask
	for {
		if s.tab[h].goid == g {
			return int(s.tab[h].id)
		}
		if s.tab[h].goid == 0 {
			return -1
		}
		h = (h + 1) & s.tmask
	}
}

//go:norace
func (s *Sim) tabDel(g uint64) {
	h := (g * 0x9E3779B97F4A7C15) >> 20 & s.tmask
	for {
		if s.tab[h].goid == g {
			s.tab[h].goid = tomb
			return
		}
		if s.tab[h].goid == 0 {
			return
		}
		h = (h + 1) & s.tmask
	}
}

func itoa(i int) string {
	if i == 0 {
		return "0"
	}
	neg := i < 0
	if neg {
		i = -i
	}
	var b [21]byte
	p := len(b)
	for i > 0 {
		p--
		b[p] = byte('0' + i%10)
		i /= 10
	}
	if neg {
		p--
		b[p] = '-'
	}
	return string(b[p:])
}

//go:norace
func (s *Sim) alloc() int {
	if s.nfree > 0 {
		s.nfree--
		return int(s.free[s.nfree])
	}
	if s.hi >= len(s.gs) {
		s.stop = true
		if s.stopWhy == "" {
			s.stopWhy = "goroutine-slots-exhausted"
		}
		return len(s.gs) - 1 // reuse the last slot; the run is being abandoned (reported as exit 2)
	}
	id := s.hi
	s.hi++
	return id
}

// self returns the slot of the calling goroutine, -1 for the scheduler root; unknown goroutines are registered as ext.
//
//go:norace
func (s *Sim) self() int {
	g := goid()
	if g == s.rootG {
		return -1
	}
	s.mu.Lock()
	id := s.tabGet(g)
	if id < 0 {
		id = s.alloc()
		s.Ext++
		s.seq++
		s.gs[id] = gstate{seq: s.seq, wake: make(chan struct{}), goid: g, site: "ext", state: stRunning}
		s.tabPut(g, id)
		s.liveCount++
	}
	s.mu.Unlock()
	return id
}

//go:norace
func (s *Sim) register(parent int, site string, st uint32, timer bool) int {
	s.mu.Lock()
	id := s.alloc()
	s.seq++
	tag := int32(0)
	if parent >= 0 {
		tag = s.gs[parent].tag
	}
	s.gs[id] = gstate{seq: s.seq, wake: make(chan struct{}), state: st, tag: tag, site: site, prio: s.rnd(), isTimer: timer}
	s.Created++
	s.liveCount++
	s.sinceProg = 0
	s.mu.Unlock()
	return id
}

// reserve fixes the identity (sequence number, priority, node tag) of a timer goroutine at creation time
// without occupying a slot; most timers are stopped before they fire.
//
//go:norace
func (s *Sim) reserve(parent int) (seq, prio uint64, tag int32) {
	s.mu.Lock()
	s.seq++
	seq = s.seq
	prio = s.rnd()
	if parent >= 0 {
		tag = s.gs[parent].tag
	}
	s.mu.Unlock()
	return
}

//go:norace
func (s *Sim) registerFired(seq, prio uint64, tag int32, site string) int {
	s.mu.Lock()
	id := s.alloc()
	s.gs[id] = gstate{seq: seq, wake: make(chan struct{}), state: stRunning, tag: tag, site: site, prio: prio, isTimer: true}
	s.Created++
	s.liveCount++
	s.sinceProg = 0
	s.mu.Unlock()
	return id
}

//go:norace
func (s *Sim) bind(id int) {
	g := goid()
	s.mu.Lock()
	s.gs[id].goid = g
	s.tabPut(g, id)
	s.mu.Unlock()
}

type abortT struct{}

func wrap(s *Sim, id int, f func()) {
	raceDisable()
	s.bind(id)
	s.park(id, stParked, nil)
	ab := s.Aborted
	raceEnable()
	defer func() {
		r := recover()
		var stack string
		if r != nil {
			if _, ok := r.(abortT); ok {
				r = nil
			} else {
				stack = string(debug.Stack())
			}
		}
		if RaceEnabled {
			raceDisable()
			seq := s.seqOf(id)
			raceEnable()
			s.fenceRelease(seq)
		}
		raceDisable()
		s.finish(id)
		raceEnable()
		if r != nil {
			if s.PanicHook != nil && !s.Aborted {
				s.PanicHook(r, stack)
			} else if !s.Aborted {
				panic(r)
			}
		}
	}()
	if ab {
		return
	}
	f()
}

// Go replaces the go statement.
func Go(site string, f func()) {
	s := Active()
	if s == nil {
		go f()
		return
	}
	raceDisable()
	parent := s.self()
	id := s.register(parent, site, stParked, false)
	raceEnable()
	go wrap(s, id, f)
}

// GoMain starts the harness body; the run ends when it returns.
func (s *Sim) GoMain(f func()) {
	raceDisable()
	id := s.register(-1, "main", stParked, false)
	s.mainID = id
	raceEnable()
	go wrap(s, id, f)
}

// AfterFunc replaces time.AfterFunc: the callback goroutine's identity is fixed at creation.
func AfterFunc(site string, d time.Duration, f func()) *time.Timer {
	s := Active()
	if s == nil {
		return time.AfterFunc(d, f)
	}
	raceDisable()
	parent := s.self()
	seq, prio, tag := s.reserve(parent)
	raceEnable()
	return time.AfterFunc(d, func() {
		raceDisable()
		id := s.registerFired(seq, prio, tag, site)
		raceEnable()
		wrap(s, id, f)
	})
}

//go:norace
func (s *Sim) signal() {
	select {
	case s.notify <- struct{}{}:
	default:
	}
}

//go:norace
func (s *Sim) finish(id int) {
	s.mu.Lock()
	g := s.gs[id].goid
	if g != 0 {
		s.tabDel(g)
	}
	if id == s.mainID {
		s.mainDone = true
	}
	s.gs[id].wake = nil
	s.gs[id].site = ""
	s.liveCount--
	s.sinceProg = 0
	if s.nfree < len(s.free) && !(s.stop && s.stopWhy == "goroutine-slots-exhausted") {
		atomic.StoreUint32(&s.gs[id].state, stFree)
		s.free[s.nfree] = int32(id)
		s.nfree++
	} else {
		atomic.StoreUint32(&s.gs[id].state, stDone)
	}
	s.mu.Unlock()
	s.signal()
}

//go:norace
func (s *Sim) park(id int, st uint32, on unsafe.Pointer) {
	s.gs[id].blocked = on
	w := s.gs[id].wake
	atomic.StoreUint32(&s.gs[id].state, st)
	s.signal()
	<-w
}

//go:norace
func (s *Sim) callerSite(skip int) string {
	var pcs [16]uintptr
	n := runtime.Callers(skip, pcs[:])
	fr := runtime.CallersFrames(pcs[:n])
	site := ""
	depth := 5
	if s.spinTracing > 0 {
		depth = 12
	}
	for k := 0; k < depth; k++ {
		f, more := fr.Next()
		fn := shortFn(f.Function)
		if len(fn) > 6 && (fn[:6] == "simrt." || hasPrefix(fn, "simsync.") || hasPrefix(fn, "simatomic.")) {
			if !more {
				break
			}
			k--
			continue
		}
		if site != "" {
			site += "<"
		}
		site += fn + ":" + itoa(f.Line)
		if !more {
			break
		}
	}
	return site
}

func hasPrefix(s, p string) bool { return len(s) >= len(p) && s[:len(p)] == p }

// fenceRelease publishes (with a real, race-detector-visible store-release) everything the calling goroutine has
// done so far to its own fence slot. Only the harness's Fence() ever acquires these slots, so no happens-before
// edge between two goroutines of the system under test is created.
func (s *Sim) fenceRelease(seq uint64) {
	if RaceEnabled && seq < uint64(len(s.fence)) {
		atomic.StoreUint32(&s.fence[seq], 1)
	}
}

//go:norace
func (s *Sim) seqOf(id int) uint64 { return s.gs[id].seq }

// Fence orders the calling (harness) goroutine after everything every other registered goroutine did before its
// most recent scheduling point: call it at quiescence before reading state of the system under test directly
// (accessors). In non-race builds it does nothing.
func Fence() {
	s := Active()
	if s == nil || !RaceEnabled {
		return
	}
	for i := range s.fence {
		atomic.LoadUint32(&s.fence[i])
	}
}

// Yield is a scheduling point.
func Yield() {
	s := Active()
	if s == nil {
		return
	}
	raceDisable()
	id := s.self()
	if id < 0 {
		raceEnable()
		return
	}
	if RaceEnabled {
		seq := s.seqOf(id)
		raceEnable()
		s.fenceRelease(seq)
		raceDisable()
	}
	s.noteSite(id)
	s.park(id, stParked, nil)
	ab := s.Aborted
	// stalled goroutine: a descheduling / GC pause / slow core that lasts long enough for timers to fire in between.
	// Only the goroutine that is running touches stallLeft (exactly one registered goroutine runs at a time).
	if !ab && s.cfg.StallMean > 0 && id != s.mainID {
		s.stallLeft--
		if s.stallLeft <= 0 {
			s.mu.Lock()
			s.stallLeft = 1 + s.draw(KFault, 2*s.cfg.StallMean, nil)
			d := stallDurations[s.draw(KFault, len(stallDurations), nil)]
			s.Stalls++
			s.mu.Unlock()
			raceEnable()
			time.Sleep(d)
			raceDisable()
			s.park(id, stParked, nil)
			ab = s.Aborted
		}
	}
	raceEnable()
	if ab {
		panic(abortT{})
	}
}

// AfterUnlock is a scheduling point right after a lock was released (in runs configured with UnlockYield): the place
// where a pre-emptive scheduler lets another thread into the window of a check-then-act sequence - state examined under
// the lock, acted upon after it. Without it the code between an Unlock and the next synchronisation operation of the same
// goroutine is atomic in the simulation.
func AfterUnlock() {
	if s := Active(); s != nil && s.cfg.UnlockYield {
		Yield()
	}
}

var stallDurations = []time.Duration{20 * time.Microsecond, 500 * time.Microsecond, 2 * time.Millisecond, 20 * time.Millisecond, 300 * time.Millisecond}

//go:norace
func (s *Sim) noteSite(id int) {
	if s.cfg.Trace || s.spinTracing > 0 {
		s.gs[id].site = s.callerSite(4)
	}
}

//go:norace
func (s *Sim) noteBlockSite(id int) { s.gs[id].bsite = s.callerSite(4) }

func shortFn(f string) string {
	for i := len(f) - 1; i >= 0; i-- {
		if f[i] == '/' {
			return f[i+1:]
		}
	}
	return f
}

// Settle returns when no other registered goroutine is schedulable at the current simulated instant.
func Settle() {
	s := Active()
	if s == nil {
		return
	}
	raceDisable()
	id := s.self()
	if id < 0 {
		raceEnable()
		return
	}
	s.park(id, stSettle, nil)
	ab := s.Aborted
	raceEnable()
	if ab {
		panic(abortT{})
	}
}

// SettleFor = settle, let d of simulated time pass, settle again.
func SettleFor(d time.Duration) {
	Settle()
	time.Sleep(d)
	Yield()
	Settle()
}

// Sleep is a simulated sleep followed by a scheduling point (harness use).
func Sleep(d time.Duration) {
	time.Sleep(d)
	Yield()
}

func BlockOn(on unsafe.Pointer) {
	s := Active()
	if s == nil {
		runtime.Gosched()
		return
	}
	raceDisable()
	id := s.self()
	if id < 0 {
		raceEnable()
		panic("simrt: scheduler goroutine would block on a SUT lock")
	}
	s.noteBlockSite(id)
	s.park(id, stBlocked, on)
	ab := s.Aborted
	raceEnable()
	if ab {
		panic(abortT{})
	}
}

func Unblock(on unsafe.Pointer) {
	s := Active()
	if s == nil {
		return
	}
	raceDisable()
	s.unblock(on)
	raceEnable()
}

//go:norace
func (s *Sim) unblock(on unsafe.Pointer) {
	s.mu.Lock()
	hi := s.hi
	s.mu.Unlock()
	for i := 0; i < hi; i++ {
		if atomic.LoadUint32(&s.gs[i].state) == stBlocked && s.gs[i].blocked == on {
			atomic.StoreUint32(&s.gs[i].state, stParked)
			s.sinceProg = 0
		}
	}
}

// Progress tells the spin detector that something observable happened.
func Progress() {
	s := Active()
	if s == nil {
		return
	}
	raceDisable()
	s.progress()
	raceEnable()
}

//go:norace
func (s *Sim) progress() { s.sinceProg = 0; s.ProgressN++ }

// Step is the global event sequence number (number of scheduling decisions so far).
func Step() int {
	s := Active()
	if s == nil {
		return 0
	}
	raceDisable()
	v := s.stepNow()
	raceEnable()
	return v
}

//go:norace
func (s *Sim) stepNow() int { return s.Steps }

// Stop asks the scheduler to end the run (used by oracles that found a violation during the run).
func Stop(why string) {
	s := Active()
	if s == nil {
		return
	}
	raceDisable()
	s.setStop(why)
	raceEnable()
}

//go:norace
func (s *Sim) setStop(why string) {
	if !s.stop {
		s.stop = true
		s.stopWhy = why
	}
	s.signal()
}

//go:norace
func (s *Sim) collect(want uint32) []int {
	buf := s.buf[:0]
	s.mu.Lock()
	hi := s.hi
	s.mu.Unlock()
	for i := 0; i < hi; i++ {
		if atomic.LoadUint32(&s.gs[i].state) == want {
			if want == stParked && s.frozen[s.gs[i].tag] {
				continue
			}
			buf = append(buf, i)
		}
	}
	// insertion sort by creation sequence (runnable sets are small)
	for i := 1; i < len(buf); i++ {
		for j := i; j > 0 && s.gs[buf[j]].seq < s.gs[buf[j-1]].seq; j-- {
			buf[j], buf[j-1] = buf[j-1], buf[j]
		}
	}
	return buf
}

//go:norace
func (s *Sim) release(id int) {
	atomic.StoreUint32(&s.gs[id].state, stRunning)
	s.gs[id].steps++
	s.gs[id].wake <- struct{}{}
}

// Run drives the simulation until the main goroutine returns, the horizon of simulated time is reached,
// the step cap is hit, a spin is detected or Stop was called. It returns the reason.
func (s *Sim) Run(horizon time.Duration) string {
	raceDisable()
	defer raceEnable()
	return s.run(horizon)
}

//go:norace
func (s *Sim) pick(buf []int) int {
	// value encoding: 0 = keep running the goroutine that ran last if still runnable, else the oldest;
	// k>0 = the k-th runnable goroutine in creation order
	lastIdx := -1
	for i, id := range buf {
		if id == s.last && s.gs[id].seq == s.lastSeq {
			lastIdx = i
		}
	}
	if len(buf) == 1 {
		return buf[0]
	}
	gen := func() int {
		switch s.cfg.Strategy {
		case 1:
			if lastIdx >= 0 && s.rnd()%100 < s.cfg.Sticky {
				return 0
			}
			return 1 + int(s.rnd()%uint64(len(buf)))
		case 2:
			for i := 0; i < s.pctN; i++ {
				if s.pctChange[i] == s.Steps && lastIdx >= 0 {
					s.gs[buf[lastIdx]].prio = uint64(i) // demote the running goroutine
				}
			}
			best := 0
			for i, id := range buf {
				if s.gs[id].prio > s.gs[buf[best]].prio {
					best = i
				}
			}
			if best == lastIdx {
				return 0
			}
			return 1 + best
		default:
			return 1 + int(s.rnd()%uint64(len(buf)))
		}
	}
	s.mu.Lock()
	v := s.draw(KSched, len(buf)+1, gen)
	s.mu.Unlock()
	var pick int
	if v == 0 {
		if lastIdx >= 0 {
			pick = buf[lastIdx]
		} else {
			pick = buf[0]
		}
	} else {
		pick = buf[v-1]
	}
	if lastIdx >= 0 && pick != s.last {
		s.Preempt++
	}
	return pick
}

//go:norace
func (s *Sim) run(horizon time.Duration) string {
	end := time.NewTimer(horizon)
	defer end.Stop()
	for {
		synctest.Wait()
		if s.mainDone {
			return "main-done"
		}
		if s.stop {
			return "stopped:" + s.stopWhy
		}
		buf := s.collect(stParked)
		if len(buf) > 0 {
			// slow nodes: drop candidates of slowed tags with the configured probability (never all)
			anySlow := false
			for _, id := range buf {
				if s.slow[s.gs[id].tag] > 0 {
					anySlow = true
				}
			}
			if anySlow {
				k := 0
				for _, id := range buf {
					p := s.slow[s.gs[id].tag]
					if p > 0 {
						s.mu.Lock()
						skip := s.draw(KFault, 100, nil) < int(p)
						s.mu.Unlock()
						if skip {
							continue
						}
					}
					buf[k] = id
					k++
				}
				if k > 0 {
					buf = buf[:k]
				}
			}
		}
		settle := false
		if len(buf) == 0 {
			buf = s.collect(stSettle)
			settle = true
			if len(buf) == 0 {
				if s.liveCount == 0 {
					return "all-done"
				}
				select {
				case <-s.notify:
					s.TimerWakes++
					continue
				case <-end.C:
					return "horizon"
				}
			}
		}
		if s.Steps >= s.cfg.MaxSteps {
			return "max-steps"
		}
		if s.cfg.SpinLimit > 0 {
			if s.sinceProg > s.cfg.SpinLimit {
				if s.spinTracing == 0 {
					s.spinTracing = 1
				} else if s.nspin >= len(s.spinSites) {
					s.SpinInfo = s.spinSummary()
					return "spin"
				}
			} else if s.spinTracing > 0 {
				s.spinTracing, s.nspin = 0, 0
			}
		}
		var pick int
		if settle {
			pick = buf[0]
			s.sinceProg = 0
		} else {
			pick = s.pick(buf)
		}
		if s.spinTracing > 0 && s.nspin < len(s.spinSites) && s.gs[pick].site != "" {
			if s.spinTracing > 1 { // skip the first (stale) site
				s.spinSites[s.nspin] = s.gs[pick].site
				s.nspin++
			}
			s.spinTracing++
		}
		s.last = pick
		s.lastSeq = s.gs[pick].seq
		s.Steps++
		s.sinceProg++
		s.Hash = (s.Hash ^ (s.gs[pick].seq + 1)) * 1099511628211
		if s.cfg.Trace && s.nlog < len(s.Log) {
			s.Log[s.nlog] = itoa(int(s.gs[pick].seq)) + "@" + s.gs[pick].site
			s.nlog++
		}
		s.release(pick)
	}
}

// spinSummary names the spin by the function that occurs in most of the sampled call stacks; among equally
// frequent ones the outermost (the loop that contains the others).
//
//go:norace
func (s *Sim) spinSummary() string {
	type cnt struct {
		fn    string
		n     int
		depth int
	}
	var cs []cnt
	for i := 0; i < s.nspin; i++ {
		fns := siteFns(s.spinSites[i])
		for d, f := range fns {
			dup := false
			for _, g := range fns[:d] {
				if g == f {
					dup = true
				}
			}
			if dup || hasPrefix(f, "simrt.") || hasPrefix(f, "runtime.") {
				continue
			}
			found := false
			for k := range cs {
				if cs[k].fn == f {
					cs[k].n++
					cs[k].depth += d
					found = true
				}
			}
			if !found {
				cs = append(cs, cnt{f, 1, d})
			}
		}
	}
	best := -1
	for k := range cs {
		if best < 0 || cs[k].n > cs[best].n || (cs[k].n == cs[best].n && cs[k].depth > cs[best].depth) {
			best = k
		}
	}
	if best < 0 {
		return "?"
	}
	return cs[best].fn
}

func siteFns(site string) []string {
	var out []string
	for len(site) > 0 {
		end := len(site)
		for i := 0; i < len(site); i++ {
			if site[i] == '<' {
				end = i
				break
			}
		}
		part := site[:end]
		for i := len(part) - 1; i >= 0; i-- {
			if part[i] == ':' {
				part = part[:i]
				break
			}
		}
		out = append(out, part)
		if end >= len(site) {
			break
		}
		site = site[end+1:]
	}
	return out
}

func (s *Sim) TraceLog() []string { return s.Log[:s.nlog] }

// Shutdown aborts every parked goroutine so that stacks unwind.
func (s *Sim) Shutdown() {
	raceDisable()
	defer raceEnable()
	s.shutdown()
}

//go:norace
func (s *Sim) shutdown() {
	s.Aborted = true
	for iter := 0; iter < 1000000; iter++ {
		synctest.Wait()
		found := -1
		for i := 0; i < s.hi; i++ {
			st := atomic.LoadUint32(&s.gs[i].state)
			if st == stParked || st == stBlocked || st == stSettle {
				found = i
				break
			}
		}
		if found < 0 {
			return
		}
		s.release(found)
	}
}

// GInfo describes a goroutine still alive (for leak / blocked-forever oracles).
type GInfo struct {
	Seq     uint64
	Tag     int
	State   string
	Site    string // creation site
	Blocked string // where it blocked on a sim lock
	Timer   bool
}

// Live lists registered goroutines that are not finished (pending timers excluded).
func (s *Sim) Live() []GInfo {
	raceDisable()
	defer raceEnable()
	return s.liveList()
}

//go:norace
func (s *Sim) liveList() []GInfo {
	var out []GInfo
	for i := 0; i < s.hi; i++ {
		st := atomic.LoadUint32(&s.gs[i].state)
		var name string
		switch st {
		case stParked:
			name = "runnable"
		case stRunning:
			name = "blocked-in-runtime" // durably blocked in a channel op / sleep / select
		case stBlocked:
			name = "blocked-on-lock"
		case stSettle:
			name = "settling"
		default:
			continue
		}
		if i == s.mainID {
			continue
		}
		out = append(out, GInfo{Seq: s.gs[i].seq, Tag: int(s.gs[i].tag), State: name, Site: s.gs[i].site, Blocked: s.gs[i].bsite, Timer: s.gs[i].isTimer})
	}
	return out
}

// SimTime is the simulated time elapsed since the run started.
func (s *Sim) SimTime() time.Duration { return time.Since(s.start) }

// ---- tags: nodes, crash (freeze), slow nodes, clock skew ----

// SetTag sets the node tag of the calling goroutine (inherited by goroutines it creates).
func SetTag(tag int) {
	s := Active()
	if s == nil {
		return
	}
	raceDisable()
	id := s.self()
	if id >= 0 {
		s.setTag(id, tag)
	}
	raceEnable()
}

//go:norace
func (s *Sim) setTag(id, tag int) { s.gs[id].tag = int32(tag) }

// CurTag returns the node tag of the calling goroutine.
func CurTag() int {
	s := Active()
	if s == nil {
		return 0
	}
	raceDisable()
	id := s.self()
	t := 0
	if id >= 0 {
		t = s.getTag(id)
	}
	raceEnable()
	return t
}

//go:norace
func (s *Sim) getTag(id int) int { return int(s.gs[id].tag) }

// WithTag runs f with the calling goroutine tagged as tag.
func WithTag(tag int, f func()) {
	old := CurTag()
	SetTag(tag)
	defer SetTag(old)
	f()
}

// Freeze crashes a node: its goroutines are never scheduled again.
func Freeze(tag int) {
	s := Active()
	raceDisable()
	s.setFrozen(tag, true)
	raceEnable()
}

//go:norace
func (s *Sim) setFrozen(tag int, v bool) { s.frozen[tag] = v }

// Frozen reports whether the calling goroutine's node is crashed.
func IsFrozen(tag int) bool {
	s := Active()
	if s == nil {
		return false
	}
	raceDisable()
	v := s.getFrozen(tag)
	raceEnable()
	return v
}

//go:norace
func (s *Sim) getFrozen(tag int) bool { return s.frozen[tag] }

// SlowDown makes goroutines of tag lose scheduling opportunities with probability pct/100.
func SlowDown(tag int, pct int) {
	s := Active()
	raceDisable()
	s.setSlow(tag, pct)
	raceEnable()
}

//go:norace
func (s *Sim) setSlow(tag, pct int) { s.slow[tag] = uint32(pct) }

// SetSkew sets the wall-clock offset seen by time.Now() on a node.
func SetSkew(tag int, d time.Duration) {
	s := Active()
	raceDisable()
	s.setSkew(tag, int64(d))
	raceEnable()
}

//go:norace
func (s *Sim) setSkew(tag int, d int64) { s.skew[tag] = d }

// Now replaces time.Now in instrumented code: bubble time plus the skew of the calling goroutine's node.
func Now() time.Time {
	s := Active()
	if s == nil {
		return time.Now()
	}
	raceDisable()
	id := s.self()
	var d int64
	if id >= 0 {
		d = s.skewOf(id)
	}
	raceEnable()
	if d == 0 {
		return time.Now()
	}
	return time.Now().Add(time.Duration(d))
}

//go:norace
func (s *Sim) skewOf(id int) int64 { return s.skew[s.gs[id].tag] }

// CountFault increments the fired-counter of a fault kind.
func CountFault(kind int) {
	s := Active()
	if s == nil {
		return
	}
	raceDisable()
	s.countFault(kind)
	raceEnable()
}

//go:norace
func (s *Sim) countFault(kind int) { s.Faults[kind]++; s.sinceProg = 0 }

// UUID returns a deterministic pseudo-uuid.
func UUID() [16]byte {
	var u [16]byte
	s := Active()
	if s == nil {
		return u
	}
	raceDisable()
	a, b := s.uuid2()
	raceEnable()
	for i := 0; i < 8; i++ {
		u[i] = byte(a >> (8 * i))
		u[8+i] = byte(b >> (8 * i))
	}
	return u
}

//go:norace
func (s *Sim) uuid2() (uint64, uint64) {
	s.mu.Lock()
	s.uuidN++
	n := s.uuidN
	s.mu.Unlock()
	return n * 0x9E3779B97F4A7C15, n
}

// Recv replaces a blocking receive expression: the woken goroutine parks again before touching anything.
func Recv[T any](ch <-chan T) T {
	v := <-ch
	Yield()
	return v
}

func Recv2[T any](ch <-chan T) (T, bool) {
	v, ok := <-ch
	Yield()
	return v, ok
}

// ZeroOf returns the zero value of a channel's element type (lets the instrumenter declare temporaries without printing types).
func ZeroOf[T any](ch <-chan T) (z T) { return }

// SelectOrder is the order in which the cases of a rewritten multi-case select are polled: a rotation
// drawn from the tape (every case can be preferred; value 0 = source order).
func SelectOrder(n int) []int {
	out := make([]int, n)
	r := Choose(KSelect, n)
	for i := range out {
		out[i] = (i + r) % n
	}
	return out
}

// ---- probes (entry/exit callbacks inserted by the instrumenter at functions named in probes.json) ----

// OnProbe registers fn for probe name; phase 0 = entry, 1 = exit.
func (s *Sim) OnProbe(name string, fn func(phase int, args []any)) {
	s.probes[s.nprobes] = probeEnt{name, fn}
	s.nprobes++
}

// Probe is called at function entry; the returned func is deferred.
func Probe(name string, args ...any) func() {
	s := Active()
	if s == nil {
		return func() {}
	}
	for i := 0; i < s.nprobes; i++ {
		if s.probes[i].name == name {
			fn := s.probes[i].fn
			fn(0, args)
			return func() { fn(1, args) }
		}
	}
	return func() {}
}
