package simrt

import (
	"cmp"
	"fmt"
	"reflect"
	"slices"
)

// MapKeys returns the keys of m in a deterministic order: sorted (ordered kinds natively, others by their
// printed form), then - if the run asked for it - rotated by a tape draw so that code depending on one
// particular iteration order is exposed.
func MapKeys[M ~map[K]V, K comparable, V any](m M) []K {
	keys := sortedKeys[M, K, V](m)
	if s := Active(); s != nil && s.cfg.MapPerm && len(keys) > 1 {
		r := Choose(KMap, len(keys))
		if r > 0 {
			out := make([]K, 0, len(keys))
			out = append(out, keys[r:]...)
			out = append(out, keys[:r]...)
			return out
		}
	}
	return keys
}

func sortedKeys[M ~map[K]V, K comparable, V any](m M) []K {
	keys := make([]K, 0, len(m))
	for k := range m {
		keys = append(keys, k)
	}
	if len(keys) < 2 {
		return keys
	}
	var zero K
	switch any(zero).(type) {
	case string:
		slices.SortFunc(keys, func(a, b K) int { return cmp.Compare(any(a).(string), any(b).(string)) })
	case int:
		slices.SortFunc(keys, func(a, b K) int { return cmp.Compare(any(a).(int), any(b).(int)) })
	default:
		rk := reflect.TypeOf(zero)
		if rk != nil {
			switch rk.Kind() {
			case reflect.String:
				slices.SortFunc(keys, func(a, b K) int { return cmp.Compare(reflect.ValueOf(a).String(), reflect.ValueOf(b).String()) })
				return keys
			case reflect.Int, reflect.Int8, reflect.Int16, reflect.Int32, reflect.Int64:
				slices.SortFunc(keys, func(a, b K) int { return cmp.Compare(reflect.ValueOf(a).Int(), reflect.ValueOf(b).Int()) })
				return keys
			case reflect.Uint, reflect.Uint8, reflect.Uint16, reflect.Uint32, reflect.Uint64:
				slices.SortFunc(keys, func(a, b K) int { return cmp.Compare(reflect.ValueOf(a).Uint(), reflect.ValueOf(b).Uint()) })
				return keys
			}
		}
		slices.SortFunc(keys, func(a, b K) int { return cmp.Compare(fmt.Sprint(a), fmt.Sprint(b)) })
	}
	return keys
}
