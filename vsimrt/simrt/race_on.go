//go:build race

package simrt

import "runtime"

func raceDisable() { runtime.RaceDisable() }
func raceEnable()  { runtime.RaceEnable() }

const RaceEnabled = true
