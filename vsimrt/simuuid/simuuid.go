// Package simuuid is swapped in for github.com/google/uuid (only the calls vivid makes).
package simuuid

import (
	"encoding/hex"

	"vsimrt/simrt"
)

type UUID [16]byte

func New() UUID { return UUID(simrt.UUID()) }

func NewString() string { return New().String() }

func (u UUID) String() string {
	var b [36]byte
	hex.Encode(b[0:8], u[0:4])
	b[8] = '-'
	hex.Encode(b[9:13], u[4:6])
	b[13] = '-'
	hex.Encode(b[14:18], u[6:8])
	b[18] = '-'
	hex.Encode(b[19:23], u[8:10])
	b[23] = '-'
	hex.Encode(b[24:36], u[10:16])
	return string(b[:])
}
