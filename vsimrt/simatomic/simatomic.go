// Package simatomic is swapped in for "sync/atomic": every operation is preceded by a scheduling point.
package simatomic

import (
	"sync/atomic"
	"unsafe"

	"vsimrt/simrt"
)

func AddInt32(p *int32, d int32) int32      { simrt.Yield(); return atomic.AddInt32(p, d) }
func AddInt64(p *int64, d int64) int64      { simrt.Yield(); return atomic.AddInt64(p, d) }
func AddUint32(p *uint32, d uint32) uint32  { simrt.Yield(); return atomic.AddUint32(p, d) }
func AddUint64(p *uint64, d uint64) uint64  { simrt.Yield(); return atomic.AddUint64(p, d) }
func LoadInt32(p *int32) int32              { simrt.Yield(); return atomic.LoadInt32(p) }
func LoadInt64(p *int64) int64              { simrt.Yield(); return atomic.LoadInt64(p) }
func LoadUint32(p *uint32) uint32           { simrt.Yield(); return atomic.LoadUint32(p) }
func LoadUint64(p *uint64) uint64           { simrt.Yield(); return atomic.LoadUint64(p) }
func StoreInt32(p *int32, v int32)          { simrt.Yield(); atomic.StoreInt32(p, v) }
func StoreInt64(p *int64, v int64)          { simrt.Yield(); atomic.StoreInt64(p, v) }
func StoreUint32(p *uint32, v uint32)       { simrt.Yield(); atomic.StoreUint32(p, v) }
func StoreUint64(p *uint64, v uint64)       { simrt.Yield(); atomic.StoreUint64(p, v) }
func SwapInt32(p *int32, v int32) int32     { simrt.Yield(); return atomic.SwapInt32(p, v) }
func SwapUint32(p *uint32, v uint32) uint32 { simrt.Yield(); return atomic.SwapUint32(p, v) }
func CompareAndSwapInt32(p *int32, o, n int32) bool {
	simrt.Yield()
	return atomic.CompareAndSwapInt32(p, o, n)
}
func CompareAndSwapInt64(p *int64, o, n int64) bool {
	simrt.Yield()
	return atomic.CompareAndSwapInt64(p, o, n)
}
func CompareAndSwapUint32(p *uint32, o, n uint32) bool {
	simrt.Yield()
	return atomic.CompareAndSwapUint32(p, o, n)
}
func CompareAndSwapUint64(p *uint64, o, n uint64) bool {
	simrt.Yield()
	return atomic.CompareAndSwapUint64(p, o, n)
}
func LoadPointer(p *unsafe.Pointer) unsafe.Pointer     { simrt.Yield(); return atomic.LoadPointer(p) }
func StorePointer(p *unsafe.Pointer, v unsafe.Pointer) { simrt.Yield(); atomic.StorePointer(p, v) }

type Bool struct{ v atomic.Bool }

func (b *Bool) Load() bool                    { simrt.Yield(); return b.v.Load() }
func (b *Bool) Store(x bool)                  { simrt.Yield(); b.v.Store(x) }
func (b *Bool) Swap(x bool) bool              { simrt.Yield(); return b.v.Swap(x) }
func (b *Bool) CompareAndSwap(o, n bool) bool { simrt.Yield(); return b.v.CompareAndSwap(o, n) }

type Int32 struct{ v atomic.Int32 }

func (b *Int32) Load() int32                    { simrt.Yield(); return b.v.Load() }
func (b *Int32) Store(x int32)                  { simrt.Yield(); b.v.Store(x) }
func (b *Int32) Add(d int32) int32              { simrt.Yield(); return b.v.Add(d) }
func (b *Int32) CompareAndSwap(o, n int32) bool { simrt.Yield(); return b.v.CompareAndSwap(o, n) }

type Int64 struct{ v atomic.Int64 }

func (b *Int64) Load() int64                    { simrt.Yield(); return b.v.Load() }
func (b *Int64) Store(x int64)                  { simrt.Yield(); b.v.Store(x) }
func (b *Int64) Add(d int64) int64              { simrt.Yield(); return b.v.Add(d) }
func (b *Int64) CompareAndSwap(o, n int64) bool { simrt.Yield(); return b.v.CompareAndSwap(o, n) }

type Uint32 struct{ v atomic.Uint32 }

func (b *Uint32) Load() uint32                    { simrt.Yield(); return b.v.Load() }
func (b *Uint32) Store(x uint32)                  { simrt.Yield(); b.v.Store(x) }
func (b *Uint32) Add(d uint32) uint32             { simrt.Yield(); return b.v.Add(d) }
func (b *Uint32) CompareAndSwap(o, n uint32) bool { simrt.Yield(); return b.v.CompareAndSwap(o, n) }

type Uint64 struct{ v atomic.Uint64 }

func (b *Uint64) Load() uint64                    { simrt.Yield(); return b.v.Load() }
func (b *Uint64) Store(x uint64)                  { simrt.Yield(); b.v.Store(x) }
func (b *Uint64) Add(d uint64) uint64             { simrt.Yield(); return b.v.Add(d) }
func (b *Uint64) CompareAndSwap(o, n uint64) bool { simrt.Yield(); return b.v.CompareAndSwap(o, n) }

type Pointer[T any] struct{ v atomic.Pointer[T] }

func (p *Pointer[T]) Load() *T                    { simrt.Yield(); return p.v.Load() }
func (p *Pointer[T]) Store(x *T)                  { simrt.Yield(); p.v.Store(x) }
func (p *Pointer[T]) Swap(x *T) *T                { simrt.Yield(); return p.v.Swap(x) }
func (p *Pointer[T]) CompareAndSwap(o, n *T) bool { simrt.Yield(); return p.v.CompareAndSwap(o, n) }

type Value struct{ v atomic.Value }

func (x *Value) Load() any                    { simrt.Yield(); return x.v.Load() }
func (x *Value) Store(v any)                  { simrt.Yield(); x.v.Store(v) }
func (x *Value) Swap(v any) any               { simrt.Yield(); return x.v.Swap(v) }
func (x *Value) CompareAndSwap(o, n any) bool { simrt.Yield(); return x.v.CompareAndSwap(o, n) }
