// Package simsync is swapped in for "sync" in instrumented packages.
package simsync

import (
	"fmt"
	"sync"
	"unsafe"

	"vsimrt/simrt"
)

type (
	Pool   = sync.Pool
	Locker = sync.Locker
)

// Map wraps sync.Map: every operation is a scheduling point and Range visits keys in a deterministic order.
type Map struct{ m sync.Map }

func (m *Map) Load(k any) (any, bool)           { simrt.Yield(); return m.m.Load(k) }
func (m *Map) Store(k, v any)                   { simrt.Yield(); m.m.Store(k, v) }
func (m *Map) LoadOrStore(k, v any) (any, bool) { simrt.Yield(); return m.m.LoadOrStore(k, v) }
func (m *Map) LoadAndDelete(k any) (any, bool)  { simrt.Yield(); return m.m.LoadAndDelete(k) }
func (m *Map) Delete(k any)                     { simrt.Yield(); m.m.Delete(k) }
func (m *Map) Swap(k, v any) (any, bool)        { simrt.Yield(); return m.m.Swap(k, v) }
func (m *Map) CompareAndSwap(k, o, n any) bool  { simrt.Yield(); return m.m.CompareAndSwap(k, o, n) }
func (m *Map) CompareAndDelete(k, o any) bool   { simrt.Yield(); return m.m.CompareAndDelete(k, o) }
func (m *Map) Clear()                           { simrt.Yield(); m.m.Clear() }
func (m *Map) Range(f func(k, v any) bool) {
	simrt.Yield()
	tmp := map[string]any{}
	keys := map[string]any{}
	m.m.Range(func(k, v any) bool {
		ks := fmt.Sprintf("%T:%v", k, k)
		tmp[ks] = v
		keys[ks] = k
		return true
	})
	for _, ks := range simrt.MapKeys(tmp) {
		if !f(keys[ks], tmp[ks]) {
			return
		}
	}
}

// RawLen counts entries without a scheduling point (harness accessors).
func (m *Map) RawRange(f func(k, v any) bool) { m.m.Range(f) }

type Mutex struct{ mu sync.Mutex }

func (m *Mutex) Lock() {
	simrt.Yield()
	for !m.mu.TryLock() {
		simrt.BlockOn(unsafe.Pointer(m))
	}
}
func (m *Mutex) TryLock() bool { simrt.Yield(); return m.mu.TryLock() }
func (m *Mutex) Unlock()       { m.mu.Unlock(); simrt.Unblock(unsafe.Pointer(m)) }

type RWMutex struct{ mu sync.RWMutex }

func (m *RWMutex) Lock() {
	simrt.Yield()
	for !m.mu.TryLock() {
		simrt.BlockOn(unsafe.Pointer(m))
	}
}
func (m *RWMutex) Unlock() { m.mu.Unlock(); simrt.Unblock(unsafe.Pointer(m)) }
func (m *RWMutex) RLock() {
	simrt.Yield()
	for !m.mu.TryRLock() {
		simrt.BlockOn(unsafe.Pointer(m))
	}
}
func (m *RWMutex) RUnlock()             { m.mu.RUnlock(); simrt.Unblock(unsafe.Pointer(m)) }
func (m *RWMutex) TryLock() bool        { simrt.Yield(); return m.mu.TryLock() }
func (m *RWMutex) TryRLock() bool       { simrt.Yield(); return m.mu.TryRLock() }
func (m *RWMutex) RLocker() sync.Locker { return (*rlocker)(m) }

type rlocker RWMutex

func (r *rlocker) Lock()   { (*RWMutex)(r).RLock() }
func (r *rlocker) Unlock() { (*RWMutex)(r).RUnlock() }

type WaitGroup struct{ wg sync.WaitGroup }

func (w *WaitGroup) Add(n int) { w.wg.Add(n) }
func (w *WaitGroup) Done()     { w.wg.Done() }
func (w *WaitGroup) Wait()     { w.wg.Wait(); simrt.Yield() }
func (w *WaitGroup) Go(f func()) {
	w.wg.Add(1)
	simrt.Go("WaitGroup.Go", func() { defer w.wg.Done(); f() })
}

type Once struct {
	m    Mutex
	done bool
}

func (o *Once) Do(f func()) {
	o.m.Lock()
	defer o.m.Unlock()
	if !o.done {
		defer func() { o.done = true }()
		f()
	}
}
