// Package simsync is swapped in for "sync" in instrumented packages.
package simsync

import (
	"fmt"
	"sync"
	"unsafe"

	"vsimrt/simrt"
)

type Locker = sync.Locker

// Pool replaces sync.Pool by a last-in-first-out free list that belongs to one simulated run: what a run leaves in a pool
// is dropped when the next run of the same process begins (a run must be a function of its tape alone, and sync.Pool's
// per-P caches and GC-driven eviction are neither), and within a run a released object is always the next one handed out,
// so state that survives in a pooled object meets its next user as early as possible.
type Pool struct {
	New   func() any
	mu    sync.Mutex
	epoch uint64
	items []any
}

func (p *Pool) Get() any {
	p.mu.Lock()
	if e := simrt.Epoch(); e != p.epoch {
		p.epoch, p.items = e, nil
	}
	if n := len(p.items); n > 0 {
		x := p.items[n-1]
		p.items[n-1] = nil
		p.items = p.items[:n-1]
		p.mu.Unlock()
		return x
	}
	p.mu.Unlock()
	if p.New != nil {
		return p.New()
	}
	return nil
}

func (p *Pool) Put(x any) {
	if x == nil {
		return
	}
	p.mu.Lock()
	if e := simrt.Epoch(); e != p.epoch {
		p.epoch, p.items = e, nil
	}
	if len(p.items) < 64 {
		p.items = append(p.items, x)
	}
	p.mu.Unlock()
}

// Map wraps sync.Map: every operation is a scheduling point and Range visits keys in a deterministic order.
type Map struct{ m sync.Map }

func (m *Map) Load(k any) (any, bool)           { simrt.Yield(); return m.m.Load(k) }
func (m *Map) Store(k, v any)                   { simrt.Yield(); m.m.Store(k, v) }
func (m *Map) LoadOrStore(k, v any) (any, bool) { simrt.Yield(); return m.m.LoadOrStore(k, v) }
func (m *Map) LoadAndDelete(k any) (any, bool)  { simrt.Yield(); return m.m.LoadAndDelete(k) }
func (m *Map) Delete(k any)                     { simrt.Yield(); m.m.Delete(k) }
func (m *Map) Swap(k, v any) (any, bool)        { simrt.Yield(); return m.m.Swap(k, v) }
func (m *Map) CompareAndSwap(k, o, n any) bool  { simrt.Yield(); return m.m.CompareAndSwap(k, o, n) }
func (m *Map) CompareAndDelete(k, o any) bool   { simrt.Yield(); return m.m.CompareAndDelete(k, o) }
func (m *Map) Clear()                           { simrt.Yield(); m.m.Clear() }
func (m *Map) Range(f func(k, v any) bool) {
	simrt.Yield()
	tmp := map[string]any{}
	keys := map[string]any{}
	m.m.Range(func(k, v any) bool {
		ks := fmt.Sprintf("%T:%v", k, k)
		tmp[ks] = v
		keys[ks] = k
		return true
	})
	for _, ks := range simrt.MapKeys(tmp) {
		if !f(keys[ks], tmp[ks]) {
			return
		}
	}
}

// RawLen counts entries without a scheduling point (harness accessors).
func (m *Map) RawRange(f func(k, v any) bool) { m.m.Range(f) }

type Mutex struct{ mu sync.Mutex }

func (m *Mutex) Lock() {
	simrt.Yield()
	for !m.mu.TryLock() {
		simrt.BlockOn(unsafe.Pointer(m))
	}
}
func (m *Mutex) TryLock() bool { simrt.Yield(); return m.mu.TryLock() }
func (m *Mutex) Unlock()       { m.mu.Unlock(); simrt.Unblock(unsafe.Pointer(m)); simrt.AfterUnlock() }

type RWMutex struct{ mu sync.RWMutex }

func (m *RWMutex) Lock() {
	simrt.Yield()
	for !m.mu.TryLock() {
		simrt.BlockOn(unsafe.Pointer(m))
	}
}
func (m *RWMutex) Unlock() { m.mu.Unlock(); simrt.Unblock(unsafe.Pointer(m)); simrt.AfterUnlock() }
func (m *RWMutex) RLock() {
	simrt.Yield()
	for !m.mu.TryRLock() {
		simrt.BlockOn(unsafe.Pointer(m))
	}
}
func (m *RWMutex) RUnlock() {
	m.mu.RUnlock()
	simrt.Unblock(unsafe.Pointer(m))
	simrt.AfterUnlock()
}
func (m *RWMutex) TryLock() bool        { simrt.Yield(); return m.mu.TryLock() }
func (m *RWMutex) TryRLock() bool       { simrt.Yield(); return m.mu.TryRLock() }
func (m *RWMutex) RLocker() sync.Locker { return (*rlocker)(m) }

type rlocker RWMutex

func (r *rlocker) Lock()   { (*RWMutex)(r).RLock() }
func (r *rlocker) Unlock() { (*RWMutex)(r).RUnlock() }

type WaitGroup struct{ wg sync.WaitGroup }

func (w *WaitGroup) Add(n int) { w.wg.Add(n) }
func (w *WaitGroup) Done()     { w.wg.Done() }
func (w *WaitGroup) Wait()     { w.wg.Wait(); simrt.Yield() }
func (w *WaitGroup) Go(f func()) {
	w.wg.Add(1)
	simrt.Go("WaitGroup.Go", func() { defer w.wg.Done(); f() })
}

type Once struct {
	m    Mutex
	done bool
}

func (o *Once) Do(f func()) {
	o.m.Lock()
	defer o.m.Unlock()
	if !o.done {
		defer func() { o.done = true }()
		f()
	}
}
