// vsim-instrument (prototype): rewrites a scratch copy of vivid (+ go-quartz, singleflight) in place.
package main

import (
	"bytes"
	"encoding/json"
	"flag"
	"fmt"
	"go/ast"
	"go/format"
	"go/token"
	"go/types"
	"os"
	"path/filepath"
	"strconv"
	"strings"

	"golang.org/x/tools/go/ast/astutil"
	"golang.org/x/tools/go/packages"
)

var swaps = map[string][2]string{ // import path -> {default name, replacement path}
	"sync":                   {"sync", "vsimrt/simsync"},
	"sync/atomic":            {"atomic", "vsimrt/simatomic"},
	"github.com/google/uuid": {"uuid", "vsimrt/simuuid"},
	"math/rand":              {"rand", "vsimrt/simrand"},
	"math/rand/v2":           {"rand", "vsimrt/simrand"},
}

type stats struct{ imports, gos, afterfunc, now, recv, selects, multisel, sleeps, mapranges, files, probes int }

var st stats

type probeSpec struct {
	Pkg  string `json:"pkg"`  // import path
	Recv string `json:"recv"` // receiver type name ("" for plain functions)
	Func string `json:"func"`
	Name string `json:"name"` // probe name seen by the harness
}

var probes []probeSpec

func loadProbes() {
	path := os.Getenv("VSIM_PROBES")
	if path == "" {
		return
	}
	b, err := os.ReadFile(path)
	if err != nil {
		return
	}
	if err := json.Unmarshal(b, &probes); err != nil {
		fatal(fmt.Errorf("probes file %s: %v", path, err))
	}
}

func main() {
	dir := flag.String("dir", "", "module dir to load from")
	flag.Parse()
	loadProbes()
	patterns := flag.Args()
	cfg := &packages.Config{
		Mode: packages.NeedName | packages.NeedFiles | packages.NeedCompiledGoFiles | packages.NeedSyntax | packages.NeedTypes | packages.NeedTypesInfo | packages.NeedImports | packages.NeedDeps,
		Dir:  *dir,
		Env:  os.Environ(),
	}
	pkgs, err := packages.Load(cfg, patterns...)
	if err != nil {
		fatal(err)
	}
	for _, p := range pkgs {
		if len(p.Errors) > 0 {
			fatal(fmt.Errorf("package %s: %v", p.PkgPath, p.Errors))
		}
		for i, f := range p.Syntax {
			name := p.CompiledGoFiles[i]
			if strings.HasSuffix(name, "_test.go") {
				continue
			}
			if instrumentFile(p, f) {
				writeFile(p.Fset, name, f)
				st.files++
			}
		}
	}
	fmt.Printf("instrumented: %+v\n", st)
}

func fatal(err error) { fmt.Fprintln(os.Stderr, "vsim-instrument:", err); os.Exit(2) }

func site(fset *token.FileSet, pos token.Pos) *ast.BasicLit {
	p := fset.Position(pos)
	return &ast.BasicLit{Kind: token.STRING, Value: strconv.Quote(filepath.Base(filepath.Dir(p.Filename)) + "/" + filepath.Base(p.Filename) + ":" + strconv.Itoa(p.Line))}
}

func simrtCall(fn string, args ...ast.Expr) *ast.CallExpr {
	return &ast.CallExpr{Fun: &ast.SelectorExpr{X: ast.NewIdent("vsimrt_"), Sel: ast.NewIdent(fn)}, Args: args}
}

func yieldStmt() ast.Stmt { return &ast.ExprStmt{X: simrtCall("Yield")} }

func isPkgFunc(info *types.Info, e ast.Expr, pkg, name string) bool {
	sel, ok := e.(*ast.SelectorExpr)
	if !ok {
		return false
	}
	obj := info.Uses[sel.Sel]
	if obj == nil || obj.Pkg() == nil {
		return false
	}
	_, isFunc := obj.(*types.Func)
	return isFunc && obj.Pkg().Path() == pkg && obj.Name() == name
}

func instrumentFile(p *packages.Package, f *ast.File) bool {
	info := p.TypesInfo
	fset := p.Fset
	changed := false
	needSimrt := false
	needSimnet := false
	tmpN := 0
	tmp := func(prefix string) *ast.Ident { tmpN++; return ast.NewIdent(fmt.Sprintf("vsim%s%d", prefix, tmpN)) }

	// 1. import swaps
	for _, imp := range f.Imports {
		path, _ := strconv.Unquote(imp.Path.Value)
		if sw, ok := swaps[path]; ok {
			if imp.Name == nil {
				imp.Name = ast.NewIdent(sw[0])
			}
			imp.Path.Value = strconv.Quote(sw[1])
			imp.EndPos = 0
			st.imports++
			changed = true
		}
	}

	inSelectComm := map[ast.Node]bool{}
	ast.Inspect(f, func(n ast.Node) bool {
		if cc, ok := n.(*ast.CommClause); ok && cc.Comm != nil {
			ast.Inspect(cc.Comm, func(m ast.Node) bool {
				if u, ok := m.(*ast.UnaryExpr); ok && u.Op == token.ARROW {
					inSelectComm[u] = true
				}
				return true
			})
		}
		return true
	})

	post := func(c *astutil.Cursor) bool {
		switch n := c.Node().(type) {
		case *ast.CallExpr:
			if isPkgFunc(info, n.Fun, "time", "AfterFunc") {
				n.Fun = &ast.SelectorExpr{X: ast.NewIdent("vsimrt_"), Sel: ast.NewIdent("AfterFunc")}
				n.Args = append([]ast.Expr{site(fset, n.Pos())}, n.Args...)
				st.afterfunc++
				needSimrt, changed = true, true
			} else if isPkgFunc(info, n.Fun, "net", "Dial") {
				n.Fun = &ast.SelectorExpr{X: ast.NewIdent("vsimnet_"), Sel: ast.NewIdent("Dial")}
				needSimnet, changed = true, true
			} else if isPkgFunc(info, n.Fun, "net", "ListenTCP") {
				n.Fun = &ast.SelectorExpr{X: ast.NewIdent("vsimnet_"), Sel: ast.NewIdent("ListenTCP")}
				needSimnet, changed = true, true
			} else if isPkgFunc(info, n.Fun, "crypto/tls", "Listen") {
				n.Fun = &ast.SelectorExpr{X: ast.NewIdent("vsimnet_"), Sel: ast.NewIdent("ListenTLS")}
				needSimnet, changed = true, true
			} else if isPkgFunc(info, n.Fun, "time", "Since") && len(n.Args) == 1 {
				// time.Since(t) -> simrt.Now().Sub(t): the skewed clock must be used consistently
				c.Replace(&ast.CallExpr{Fun: &ast.SelectorExpr{X: simrtCall("Now"), Sel: ast.NewIdent("Sub")}, Args: n.Args})
				st.now++
				needSimrt, changed = true, true
			} else if isPkgFunc(info, n.Fun, "time", "Until") && len(n.Args) == 1 {
				c.Replace(&ast.CallExpr{Fun: &ast.SelectorExpr{X: &ast.ParenExpr{X: n.Args[0]}, Sel: ast.NewIdent("Sub")}, Args: []ast.Expr{simrtCall("Now")}})
				st.now++
				needSimrt, changed = true, true
			} else if isPkgFunc(info, n.Fun, "time", "Now") {
				n.Fun = &ast.SelectorExpr{X: ast.NewIdent("vsimrt_"), Sel: ast.NewIdent("Now")}
				st.now++
				needSimrt, changed = true, true
			}
		case *ast.UnaryExpr:
			if n.Op == token.ARROW && !inSelectComm[n] {
				// v, ok := <-ch  is handled at the AssignStmt level (needs Recv2)
				if as, ok := c.Parent().(*ast.AssignStmt); ok && len(as.Lhs) == 2 && len(as.Rhs) == 1 {
					c.Replace(simrtCall("Recv2", n.X))
				} else {
					c.Replace(simrtCall("Recv", n.X))
				}
				st.recv++
				needSimrt, changed = true, true
			}
		case *ast.CommClause:
			n.Body = append([]ast.Stmt{yieldStmt()}, n.Body...)
			st.selects++
			needSimrt, changed = true, true
		case *ast.ExprStmt:
			if call, ok := n.X.(*ast.CallExpr); ok && isPkgFunc(info, call.Fun, "time", "Sleep") {
				if _, inList := c.Parent().(*ast.BlockStmt); inList {
					c.InsertAfter(yieldStmt())
					st.sleeps++
					needSimrt, changed = true, true
				}
			}
		case *ast.SelectStmt:
			if _, labeled := c.Parent().(*ast.LabeledStmt); !labeled && countComm(n) >= 2 {
				c.Replace(rewriteSelect(n, nil, tmp))
				st.multisel++
				needSimrt, changed = true, true
			}
		case *ast.LabeledStmt:
			if sel, ok := n.Stmt.(*ast.SelectStmt); ok && countComm(sel) >= 2 {
				c.Replace(rewriteSelect(sel, n.Label, tmp))
				st.multisel++
				needSimrt, changed = true, true
			}
		case *ast.SendStmt:
			if _, inList := c.Parent().(*ast.BlockStmt); inList {
				c.InsertAfter(yieldStmt())
				needSimrt, changed = true, true
			}
		case *ast.GoStmt:
			c.Replace(rewriteGo(info, fset, n, tmp))
			st.gos++
			needSimrt, changed = true, true
		case *ast.RangeStmt:
			t := info.TypeOf(n.X)
			if t == nil {
				return true
			}
			switch t.Underlying().(type) {
			case *types.Map:
				blk := rewriteMapRange(n, tmp)
				if lab, ok := c.Parent().(*ast.LabeledStmt); ok {
					// keep the label on the loop: { tmp := m; L: for ... }
					inner := blk.List[1]
					lab.Stmt = inner
					_ = lab
					// cannot hoist from here without the grandparent; evaluate m in place instead
					lab.Stmt = blk.List[1]
					forStmt := blk.List[1].(*ast.RangeStmt)
					forStmt.X.(*ast.CallExpr).Args[0] = n.X
					fixMapIndex(forStmt, n.X)
				} else {
					c.Replace(blk)
				}
				st.mapranges++
				needSimrt, changed = true, true
			case *types.Chan:
				n.Body.List = append([]ast.Stmt{yieldStmt()}, n.Body.List...)
				needSimrt, changed = true, true
			}
		}
		return true
	}
	astutil.Apply(f, nil, post)

	// entry/exit probes for the functions named in probes.json: defer simrt.Probe(name, recv, params..., &results...)()
	for _, d := range f.Decls {
		fd, ok := d.(*ast.FuncDecl)
		if !ok || fd.Body == nil {
			continue
		}
		for _, ps := range probes {
			if ps.Pkg != p.PkgPath || ps.Func != fd.Name.Name {
				continue
			}
			recvName := ""
			if fd.Recv != nil && len(fd.Recv.List) == 1 {
				t := fd.Recv.List[0].Type
				if st, ok := t.(*ast.StarExpr); ok {
					t = st.X
				}
				if id, ok := t.(*ast.Ident); ok {
					recvName = id.Name
				}
			}
			if recvName != ps.Recv {
				continue
			}
			args := []ast.Expr{&ast.BasicLit{Kind: token.STRING, Value: strconv.Quote(ps.Name)}}
			if fd.Recv != nil && len(fd.Recv.List[0].Names) == 1 {
				args = append(args, ast.NewIdent(fd.Recv.List[0].Names[0].Name))
			}
			for _, fl := range fd.Type.Params.List {
				for _, n := range fl.Names {
					if n.Name != "_" {
						args = append(args, ast.NewIdent(n.Name))
					}
				}
			}
			if fd.Type.Results != nil {
				for _, fl := range fd.Type.Results.List {
					for _, n := range fl.Names {
						if n.Name != "_" {
							args = append(args, &ast.UnaryExpr{Op: token.AND, X: ast.NewIdent(n.Name)})
						}
					}
				}
			}
			deferStmt := &ast.DeferStmt{Call: &ast.CallExpr{Fun: simrtCall("Probe", args...)}}
			fd.Body.List = append([]ast.Stmt{deferStmt}, fd.Body.List...)
			st.probes++
			needSimrt, changed = true, true
		}
	}

	if needSimrt {
		astutil.AddNamedImport(fset, f, "vsimrt_", "vsimrt/simrt")
	}
	if needSimnet {
		astutil.AddNamedImport(fset, f, "vsimnet_", "vsimrt/simnet")
	}
	if changed {
		for _, imp := range append([]*ast.ImportSpec(nil), f.Imports...) {
			if imp.Name != nil && (imp.Name.Name == "_" || imp.Name.Name == ".") {
				continue
			}
			path, _ := strconv.Unquote(imp.Path.Value)
			if !astutil.UsesImport(f, path) {
				if imp.Name != nil {
					astutil.DeleteNamedImport(fset, f, imp.Name.Name, path)
				} else {
					astutil.DeleteImport(fset, f, path)
				}
			}
		}
	}
	return changed
}

// rewriteGo: go F(A...)  =>  { f0 := F; a0 := A0; ...; simrt.Go(site, func(){ f0(a0...) }) }
func rewriteGo(info *types.Info, fset *token.FileSet, g *ast.GoStmt, tmp func(string) *ast.Ident) ast.Stmt {
	call := g.Call
	var pre []ast.Stmt
	fun := call.Fun
	isBuiltin := false
	if id, ok := fun.(*ast.Ident); ok {
		if _, ok := info.Uses[id].(*types.Builtin); ok {
			isBuiltin = true
		}
	}
	if _, isLit := fun.(*ast.FuncLit); !isBuiltin && !isLit {
		f0 := tmp("F")
		pre = append(pre, &ast.AssignStmt{Lhs: []ast.Expr{f0}, Tok: token.DEFINE, Rhs: []ast.Expr{fun}})
		fun = f0
	}
	args := make([]ast.Expr, len(call.Args))
	for i, a := range call.Args {
		tv, ok := info.Types[a]
		if ok && (tv.Value != nil || tv.IsNil()) {
			args[i] = a
			continue
		}
		if ok {
			if _, isTuple := tv.Type.(*types.Tuple); isTuple {
				args[i] = a
				continue
			}
		}
		a0 := tmp("A")
		pre = append(pre, &ast.AssignStmt{Lhs: []ast.Expr{a0}, Tok: token.DEFINE, Rhs: []ast.Expr{a}})
		args[i] = a0
	}
	inner := &ast.CallExpr{Fun: fun, Args: args, Ellipsis: call.Ellipsis}
	lit := &ast.FuncLit{Type: &ast.FuncType{Params: &ast.FieldList{}}, Body: &ast.BlockStmt{List: []ast.Stmt{&ast.ExprStmt{X: inner}}}}
	pre = append(pre, &ast.ExprStmt{X: simrtCall("Go", site(fset, g.Pos()), lit)})
	return &ast.BlockStmt{List: pre}
}

// rewriteMapRange: for k, v := range m {B}  =>  { mm := m; for _, k := range simrt.MapKeys(mm) { v, ok := mm[k]; if !ok {continue}; B } }
func rewriteMapRange(r *ast.RangeStmt, tmp func(string) *ast.Ident) *ast.BlockStmt {
	mm := tmp("M")
	okId := tmp("Ok")
	var keyVar ast.Expr = tmp("K")
	var prologue []ast.Stmt
	userKey, userVal := r.Key, r.Value
	isBlank := func(e ast.Expr) bool {
		if e == nil {
			return true
		}
		id, ok := e.(*ast.Ident)
		return ok && id.Name == "_"
	}
	loopKey := keyVar
	if !isBlank(userKey) && r.Tok == token.DEFINE {
		loopKey = userKey
	} else if !isBlank(userKey) { // ASSIGN form
		prologue = append(prologue, &ast.AssignStmt{Lhs: []ast.Expr{userKey}, Tok: token.ASSIGN, Rhs: []ast.Expr{keyVar}})
	}
	idx := &ast.IndexExpr{X: mm, Index: loopKey}
	if !isBlank(userVal) {
		tok := token.DEFINE
		if r.Tok == token.ASSIGN {
			// v, ok = m[k] needs ok declared
			prologue = append(prologue, &ast.DeclStmt{Decl: &ast.GenDecl{Tok: token.VAR, Specs: []ast.Spec{&ast.ValueSpec{Names: []*ast.Ident{okId}, Type: ast.NewIdent("bool")}}}})
			tok = token.ASSIGN
		}
		prologue = append(prologue, &ast.AssignStmt{Lhs: []ast.Expr{userVal, okId}, Tok: tok, Rhs: []ast.Expr{idx}})
	} else {
		prologue = append(prologue, &ast.AssignStmt{Lhs: []ast.Expr{ast.NewIdent("_"), okId}, Tok: token.DEFINE, Rhs: []ast.Expr{idx}})
	}
	prologue = append(prologue, &ast.IfStmt{Cond: &ast.UnaryExpr{Op: token.NOT, X: okId}, Body: &ast.BlockStmt{List: []ast.Stmt{&ast.BranchStmt{Tok: token.CONTINUE}}}})
	body := &ast.BlockStmt{List: append(prologue, r.Body.List...)}
	loop := &ast.RangeStmt{Key: ast.NewIdent("_"), Value: loopKey, Tok: token.DEFINE, X: simrtCall("MapKeys", mm), Body: body}
	return &ast.BlockStmt{List: []ast.Stmt{
		&ast.AssignStmt{Lhs: []ast.Expr{mm}, Tok: token.DEFINE, Rhs: []ast.Expr{r.X}},
		loop,
	}}
}

// fixMapIndex replaces the temp map ident used in the prologue by the original expression (labeled loops).
func fixMapIndex(loop *ast.RangeStmt, orig ast.Expr) {
	for _, s := range loop.Body.List {
		if as, ok := s.(*ast.AssignStmt); ok && len(as.Rhs) == 1 {
			if ix, ok := as.Rhs[0].(*ast.IndexExpr); ok {
				if id, ok := ix.X.(*ast.Ident); ok && strings.HasPrefix(id.Name, "vsimM") {
					ix.X = orig
				}
			}
		}
	}
}

func writeFile(fset *token.FileSet, name string, f *ast.File) {
	// keep only header comments (build constraints) and //go: directives in doc comments
	var keep []*ast.CommentGroup
	for _, cg := range f.Comments {
		if cg.End() < f.Package {
			keep = append(keep, cg)
			continue
		}
		for _, c := range cg.List {
			if strings.HasPrefix(c.Text, "//go:") {
				keep = append(keep, cg)
				break
			}
		}
	}
	f.Comments = keep
	var buf bytes.Buffer
	if err := format.Node(&buf, fset, f); err != nil {
		fatal(fmt.Errorf("%s: %v", name, err))
	}
	if err := os.WriteFile(name, buf.Bytes(), 0o644); err != nil {
		fatal(err)
	}
}

func countComm(sel *ast.SelectStmt) int {
	n := 0
	for _, cl := range sel.Body.List {
		if cl.(*ast.CommClause).Comm != nil {
			n++
		}
	}
	return n
}

func intLit(i int) ast.Expr { return &ast.BasicLit{Kind: token.INT, Value: strconv.Itoa(i)} }

func assign(tok token.Token, lhs []ast.Expr, rhs ...ast.Expr) ast.Stmt {
	return &ast.AssignStmt{Lhs: lhs, Tok: tok, Rhs: rhs}
}

// rewriteSelect makes the choice among several ready cases a seeded decision instead of the runtime's:
// poll the cases one by one in simrt.SelectOrder, block on the original select only if none is ready
// (then the first completion wins, which is deterministic under the scheduler), and dispatch the bodies once.
func rewriteSelect(sel *ast.SelectStmt, label *ast.Ident, tmp func(string) *ast.Ident) ast.Stmt {
	var pre []ast.Stmt
	caseVar := tmp("Case")
	pre = append(pre, assign(token.DEFINE, []ast.Expr{caseVar}, &ast.UnaryExpr{Op: token.SUB, X: intLit(1)}))
	type cinfo struct {
		comm    func() ast.Stmt // fresh comm statement storing into temps
		bind    []ast.Stmt      // statements binding user variables at the start of the body
		body    []ast.Stmt
		isDeflt bool
	}
	var infos []cinfo
	ncomm := 0
	for _, cl0 := range sel.Body.List {
		cl := cl0.(*ast.CommClause)
		if cl.Comm == nil {
			infos = append(infos, cinfo{isDeflt: true, body: cl.Body})
			continue
		}
		ncomm++
		ci := cinfo{body: cl.Body}
		switch cm := cl.Comm.(type) {
		case *ast.SendStmt:
			ch, val := tmp("C"), tmp("S")
			pre = append(pre, assign(token.DEFINE, []ast.Expr{ch}, cm.Chan), assign(token.DEFINE, []ast.Expr{val}, cm.Value))
			ci.comm = func() ast.Stmt { return &ast.SendStmt{Chan: ch, Value: val} }
		case *ast.ExprStmt: // case <-ch:
			ch, v, ok := tmp("C"), tmp("V"), tmp("Ok")
			recv := cm.X.(*ast.UnaryExpr)
			pre = append(pre, assign(token.DEFINE, []ast.Expr{ch}, recv.X),
				assign(token.DEFINE, []ast.Expr{v, ok}, simrtCall("ZeroOf", ch), ast.NewIdent("false")),
				assign(token.ASSIGN, []ast.Expr{ast.NewIdent("_"), ast.NewIdent("_")}, v, ok))
			ci.comm = func() ast.Stmt {
				return assign(token.ASSIGN, []ast.Expr{v, ok}, &ast.UnaryExpr{Op: token.ARROW, X: ch})
			}
		case *ast.AssignStmt: // case v := <-ch / v, ok := <-ch / v = <-ch
			ch, v, ok := tmp("C"), tmp("V"), tmp("Ok")
			recv := cm.Rhs[0].(*ast.UnaryExpr)
			pre = append(pre, assign(token.DEFINE, []ast.Expr{ch}, recv.X),
				assign(token.DEFINE, []ast.Expr{v, ok}, simrtCall("ZeroOf", ch), ast.NewIdent("false")),
				assign(token.ASSIGN, []ast.Expr{ast.NewIdent("_"), ast.NewIdent("_")}, v, ok))
			ci.comm = func() ast.Stmt {
				return assign(token.ASSIGN, []ast.Expr{v, ok}, &ast.UnaryExpr{Op: token.ARROW, X: ch})
			}
			if len(cm.Lhs) == 2 {
				ci.bind = []ast.Stmt{assign(cm.Tok, cm.Lhs, v, ok)}
			} else {
				ci.bind = []ast.Stmt{assign(cm.Tok, cm.Lhs, v)}
			}
		}
		infos = append(infos, ci)
	}
	// poll phase
	idxVar := tmp("I")
	var pollCases []ast.Stmt
	k := 0
	deflt := -1
	for i, ci := range infos {
		if ci.isDeflt {
			deflt = i
			continue
		}
		one := &ast.SelectStmt{Body: &ast.BlockStmt{List: []ast.Stmt{
			&ast.CommClause{Comm: ci.comm(), Body: []ast.Stmt{assign(token.ASSIGN, []ast.Expr{caseVar}, intLit(i))}},
			&ast.CommClause{},
		}}}
		pollCases = append(pollCases, &ast.CaseClause{List: []ast.Expr{intLit(k)}, Body: []ast.Stmt{one}})
		k++
	}
	poll := &ast.RangeStmt{Key: ast.NewIdent("_"), Value: idxVar, Tok: token.DEFINE, X: simrtCall("SelectOrder", intLit(ncomm)),
		Body: &ast.BlockStmt{List: []ast.Stmt{
			&ast.SwitchStmt{Tag: idxVar, Body: &ast.BlockStmt{List: pollCases}},
			&ast.IfStmt{Cond: &ast.BinaryExpr{X: caseVar, Op: token.GEQ, Y: intLit(0)}, Body: &ast.BlockStmt{List: []ast.Stmt{&ast.BranchStmt{Tok: token.BREAK}}}},
		}}}
	// blocking phase
	var elseBody []ast.Stmt
	if deflt >= 0 {
		elseBody = []ast.Stmt{assign(token.ASSIGN, []ast.Expr{caseVar}, intLit(deflt))}
	} else {
		var clauses []ast.Stmt
		for i, ci := range infos {
			clauses = append(clauses, &ast.CommClause{Comm: ci.comm(), Body: []ast.Stmt{assign(token.ASSIGN, []ast.Expr{caseVar}, intLit(i))}})
		}
		elseBody = []ast.Stmt{&ast.SelectStmt{Body: &ast.BlockStmt{List: clauses}}, yieldStmt()}
	}
	block := &ast.IfStmt{Cond: &ast.BinaryExpr{X: caseVar, Op: token.LSS, Y: intLit(0)}, Body: &ast.BlockStmt{List: elseBody}}
	// dispatch
	var dispatch []ast.Stmt
	for i, ci := range infos {
		body := append(append([]ast.Stmt{}, ci.bind...), ci.body...)
		dispatch = append(dispatch, &ast.CaseClause{List: []ast.Expr{intLit(i)}, Body: body})
	}
	var sw ast.Stmt = &ast.SwitchStmt{Tag: caseVar, Body: &ast.BlockStmt{List: dispatch}}
	if label != nil {
		sw = &ast.LabeledStmt{Label: label, Stmt: sw}
	}
	return &ast.BlockStmt{List: append(pre, poll, block, sw)}
}
