#!/bin/bash
# builds the verification tools offline; see DESIGN.md 2.11
set -euo pipefail
cd "$(dirname "$0")"
export GOFLAGS=-mod=mod GOPROXY=off GOSUMDB=off GOTOOLCHAIN=local PATH=/opt/veriftools/go1.26.8/bin:$PATH
mkdir -p bin
( cd instrument && go build -o ../bin/vsim-instrument . )
( cd cmd/vcheck && go build -o ../../bin/vcheck . )
echo setup-ok
