//go:build vsim

package vsimharness

import (
	"sync"
	"time"

	"github.com/kercylan98/vivid/internal/queues"
	"sync/atomic"
	vsimrt "vsimrt/simrt"
)

// SELF - self tests of the race oracle: accesses ordered by real synchronisation must not be reported,
// unsynchronised ones must (DESIGN.md 2.6). Run with `vcheck SELF`.

func init() {
	register(&Workload{Prop: "SELF", Variant: "hb-chains", Horizon: time.Minute, MaxSteps: 20000, MaxG: 256, Race: true, Body: selfHB})
	register(&Workload{Prop: "SELFNEG", Variant: "unsync", Horizon: time.Minute, MaxSteps: 20000, MaxG: 256, Race: true, Body: selfUnsync})
}

type selfBox struct{ a, b string }

func selfHB(r *R) {
	// chain: g1 writes box; hands it over under a real mutex; g2 picks it up, pushes it through a RingQueue (sim mutex);
	// g3 pops it and spawns g4 via an atomic flag hand-over; g4 reads box.
	var mu sync.Mutex
	var shared []*selfBox
	q := queues.New(4)
	var flag atomic.Int32
	var wg sync.WaitGroup
	wg.Add(3)
	vsimrt.Go("self.g1", func() {
		defer wg.Done()
		b := &selfBox{a: "x", b: "y"}
		vsimrt.Yield()
		mu.Lock()
		shared = append(shared, b)
		mu.Unlock()
	})
	vsimrt.Go("self.g2", func() {
		defer wg.Done()
		for i := 0; i < 50; i++ {
			mu.Lock()
			var b *selfBox
			if len(shared) > 0 {
				b = shared[0]
			}
			mu.Unlock()
			if b != nil {
				q.Push(b)
				flag.Store(1)
				return
			}
			vsimrt.Yield()
		}
	})
	vsimrt.Go("self.g3", func() {
		defer wg.Done()
		for i := 0; i < 100; i++ {
			vsimrt.Yield()
			if flag.Load() == 1 {
				v, ok := q.Pop()
				if ok {
					b := v.(*selfBox)
					wg.Add(1)
					vsimrt.Go("self.g4", func() {
						defer wg.Done()
						if b.a+b.b != "xy" {
							r.Fail("SELF/value", "bad value")
						}
					})
					return
				}
			}
		}
	})
	wg.Wait()
	vsimrt.Yield()
}

func selfUnsync(r *R) {
	b := &selfBox{}
	var wg sync.WaitGroup
	wg.Add(2)
	vsimrt.Go("selfneg.w", func() { defer wg.Done(); vsimrt.Yield(); b.a = "w" })
	vsimrt.Go("selfneg.r", func() { defer wg.Done(); vsimrt.Yield(); _ = b.a })
	wg.Wait()
	vsimrt.Yield()
}
