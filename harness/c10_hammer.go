//go:build vsim

package vsimharness

import (
	"fmt"
	"sort"
	"sync"
	"time"

	"github.com/kercylan98/vivid"
	"github.com/kercylan98/vivid/internal/actor"
	vsimrt "vsimrt/simrt"
)

// C10 - the documented-concurrent API is safe from any goroutine (DESIGN.md 3, C10). The workload runs in the
// plain binary (crash, tree consistency) and in the -race binary (data races; reports are parsed by the driver).

func init() {
	register(&Workload{Prop: "C10", Variant: "hammer", Horizon: 20 * time.Minute, MaxSteps: 400000, MaxG: 8192, Spin: 10000, PCTLen: 4000, Race: true, Body: c10Hammer})
}

type c10Evt struct{ N int }

func c10Hammer(r *R) {
	decs := []vivid.SupervisionDecision{vivid.SupervisionDecisionRestart, vivid.SupervisionDecisionStop, vivid.SupervisionDecisionResume, vivid.SupervisionDecisionGracefulRestart}
	draw := func(n int, ctx vivid.SupervisionContext) vivid.SupervisionDecision {
		return decs[vsimrt.Choose(vsimrt.KWork, len(decs))]
	}
	w := newWorld(r, WorldOpt{MakeStrategy: func(w *World) vivid.SupervisionStrategy { return vivid.OneForOneStrategy(w.NewMaker("system", draw)) }})
	if r.Failed() {
		return
	}
	sysI := actor.VsimSystem(w.Sys)
	var mu sync.Mutex
	var tops []vivid.ActorRef // shared references (used by every goroutine)
	var futs []vivid.Future[vivid.Message]
	responder := func(ctx vivid.ActorContext, p *Probe, m any) {
		if v, ok := m.(c04Req); ok {
			if v.Mode == 0 {
				ctx.Reply(c04Rep{v.ID, 1})
			}
		}
	}
	mkTop := func(name string) *Spec {
		s := &Spec{Name: name, OnOther: responder, Strategy: vivid.OneForOneStrategy(w.NewMaker(name, draw))}
		s.Children = []*Spec{{Name: "k0", OnOther: responder}, {Name: "k1", OnOther: responder, Children: []*Spec{{Name: "g"}}}}
		return s
	}
	for i := 0; i < 2; i++ {
		ref, err := w.Spawn(mkTop(fmt.Sprintf("t%d", i)))
		if err != nil {
			r.Fail("C10/harness", "spawn: %v", err)
			return
		}
		tops = append(tops, ref)
	}
	vsimrt.Settle()
	nG := 2 + r.Choose(3)
	nOps := 4 + r.Choose(10)
	r.Sample(map[string]any{"goroutines": nG, "ops_per_goroutine": nOps})
	var wg sync.WaitGroup
	for g := 0; g < nG; g++ {
		g := g
		wg.Add(1)
		vsimrt.Go("c10.hammer", func() {
			defer wg.Done()
			for i := 0; i < nOps; i++ {
				mu.Lock()
				var ref vivid.ActorRef
				if len(tops) > 0 {
					ref = tops[r.Choose(len(tops))]
				}
				mu.Unlock()
				sub := []string{"", "/k0", "/k1", "/k1/g"}[r.Choose(4)]
				var target vivid.ActorRef = ref
				if ref != nil && sub != "" {
					target = w.RefBy("create", nil, ref.GetPath()+sub)
				}
				switch op := r.Choose(12); op {
				case 0: // ActorOf on the system from an arbitrary goroutine
					nref, err := w.Spawn(mkTop(fmt.Sprintf("h%d_%d", g, i)))
					if err == nil {
						mu.Lock()
						tops = append(tops, nref)
						mu.Unlock()
						r.Count("op:ActorOf")
					}
				case 1, 2:
					if target != nil {
						w.Tell(target, w.NewCmd("h", i, nil))
						r.Count("op:Tell")
					}
				case 3: // failing message -> supervision while others spawn and kill
					if target != nil {
						w.Tell(target, w.NewCmd("h", i, func(ctx vivid.ActorContext, p *Probe) { panic("hammer failure") }))
						r.Count("op:Tell(failing)")
					}
				case 4:
					if target != nil {
						f := w.Sys.Ask(target, c04Req{ID: g*1000 + i, Mode: r.Choose(2)}, 50*time.Millisecond)
						mu.Lock()
						futs = append(futs, f)
						mu.Unlock()
						r.Count("op:Ask")
					}
				case 5:
					if ref != nil {
						w.Sys.Kill(target, r.Chance(50), "hammer")
						r.Count("op:Kill")
					}
				case 6:
					if target != nil {
						_, _ = w.Sys.FindActor(target.String())
						r.Count("op:FindActor")
					}
				case 7:
					sysI.EventStream().Subscribe(sysI, c10Evt{})
					r.Count("op:Subscribe")
				case 8:
					sysI.EventStream().Publish(sysI, c10Evt{N: i})
					r.Count("op:Publish")
				case 9:
					sysI.EventStream().Unsubscribe(sysI, c10Evt{})
					r.Count("op:Unsubscribe")
				case 10: // future methods from a goroutine that did not create the future
					mu.Lock()
					var f vivid.Future[vivid.Message]
					if len(futs) > 0 {
						f = futs[r.Choose(len(futs))]
					}
					mu.Unlock()
					if f != nil {
						switch r.Choose(3) {
						case 0:
							_, _ = f.Result()
							vsimrt.Yield()
						case 1:
							f.Close(errC04Closed)
						case 2:
							if ref != nil {
								_ = f.PipeTo(vivid.ActorRefs{ref})
							}
						}
						r.Count("op:Future")
					}
				case 11: // shared ActorRef: clone/equals/string + tell through the shared instance
					if ref != nil {
						_ = ref.Clone().Equals(ref)
						_ = ref.String()
						w.Tell(ref, w.NewCmd("h", i, nil))
						r.Count("op:SharedRef")
					}
				}
			}
		})
	}
	// in some runs Stop itself is one of the concurrent callers: the root's own termination races ActorOf/Kill/Tell
	stopEarly := r.Chance(30)
	var stopErr error
	if stopEarly {
		r.Count("stop-while-hammering")
		after := r.Choose(60)
		wg.Add(1)
		vsimrt.Go("c10.stopper", func() {
			defer wg.Done()
			for k := 0; k < after; k++ {
				vsimrt.Yield()
			}
			stopErr = w.Sys.Stop(30 * time.Second)
			vsimrt.Yield()
		})
	}
	r.Waiting("hammer goroutines")
	wg.Wait()
	vsimrt.Yield()
	vsimrt.SettleFor(500 * time.Millisecond)
	if r.Failed() {
		return
	}
	if stopEarly {
		if stopErr != nil {
			r.Fail("C10/stop-failed while-hammering", "Stop called while %d goroutines were using the system returned %v", nG, stopErr)
			return
		}
		vsimrt.Fence()
		for _, c := range actor.VsimContexts(sysI) {
			if c.Path != "/" && c.State != 2 {
				r.Fail("C10/actor-survived-stop while-hammering", "after Stop returned nil, %s is still registered in state %d (children %v)", c.Path, c.State, c.Children)
				return
			}
		}
		return
	}
	// tree consistency at quiescence
	if !treeConsistent(r, sysI, "C10") {
		return
	}
	if err := w.Stop(30 * time.Second); err != nil {
		r.Fail("C10/stop-failed", "Stop returned %v after the hammering", err)
		return
	}
	vsimrt.SettleFor(time.Second)
}

// treeConsistent checks the actor tree at quiescence: every registered context is listed by its registered parent and
// vice versa, and nobody is half-stopped.
func treeConsistent(r *R, sysI *actor.System, prop string) bool {
	vsimrt.Fence()
	ctxs := actor.VsimContexts(sysI)
	byPath := map[string]actor.VsimCtxInfo{}
	for _, c := range ctxs {
		byPath[c.Path] = c
	}
	var paths []string
	for p := range byPath {
		paths = append(paths, p)
	}
	sort.Strings(paths)
	for _, p := range paths {
		c := byPath[p]
		if p != "/" {
			par, ok := byPath[c.Parent]
			if !ok {
				r.Fail(prop+"/tree-orphan parent-not-registered", "%s is registered but its parent %s is not", p, c.Parent)
				return false
			}
			found := false
			for _, k := range par.Children {
				if k == p {
					found = true
				}
			}
			if !found && c.State != 2 {
				cls := prop+"/tree-orphan not-in-parents-children"
				if c.Parent == "/" {
					cls += " top-level"
				}
				r.Fail(cls, "%s (state %d) is registered but its parent %s does not list it among its children %v", p, c.State, c.Parent, par.Children)
				return false
			}
		}
		for _, k := range c.Children {
			if _, ok := byPath[k]; !ok {
				cls := prop+"/tree-dangling-child"
				if p == "/" {
					cls += " top-level"
				}
				r.Fail(cls, "%s lists %s among its children but no such actor is registered", p, k)
				return false
			}
		}
		if p != "/" && c.State == 1 {
			r.Fail(prop+"/half-stopped", "%s is still in the killing state at quiescence (waits for %v)", p, c.Children)
			return false
		}
	}
	return true
}
