//go:build vsim

// Package vsimharness holds the workloads and oracles of the vivid simulation (DESIGN.md 2.7, 3).
// It is copied into the instrumented scratch copy of vivid as internal/vsimharness.
package vsimharness

import (
	"fmt"
	"sort"
	"strings"
	"sync"
	"testing"
	"testing/synctest"
	"time"

	vsimrt "vsimrt/simrt"
)

// Violation is what an oracle reports. Class is a stable string built from facts (never from seeds or
// addresses); it keys known_findings.json and the "same violation" criterion of the minimiser.
type Violation struct {
	Class string `json:"class"`
	Msg   string `json:"msg"`
	Step  int    `json:"step"`
}

// Params of one run, derived from the run seed only (so that a replay re-derives them).
type Params struct {
	Strategy int
	Sticky   uint64
	PCTDepth int
	MapPerm  bool
	// UnlockYield: a scheduling point after every lock release (two thirds of the runs)
	UnlockYield bool
}

// R is the context of one simulated run.
type R struct {
	Prop    string
	Variant string
	Tier    string
	Seed    uint64
	Index   int // run index within the batch (enumerated dimensions are derived from it)
	Sim     *vsimrt.Sim

	mu      sync.Mutex // real lock: harness state is invisible to the scheduler but visible to the race detector
	viol    *Violation
	counts  map[string]int
	sample  any
	waiting string
	notes   []string
}

// Fail records the first violation and stops the run.
func (r *R) Fail(class, format string, a ...any) {
	r.mu.Lock()
	if r.viol == nil {
		r.viol = &Violation{Class: class, Msg: fmt.Sprintf(format, a...), Step: vsimrt.Step()}
	}
	r.mu.Unlock()
	vsimrt.Stop("violation")
}

func (r *R) Failed() bool {
	r.mu.Lock()
	defer r.mu.Unlock()
	return r.viol != nil
}

// Count increments a reach counter (reported in the evidence).
func (r *R) Count(name string) { r.CountN(name, 1) }
func (r *R) CountN(name string, n int) {
	r.mu.Lock()
	r.counts[name] += n
	r.mu.Unlock()
}

// Sample stores a description of this run's case for the evidence file.
func (r *R) Sample(v any) {
	r.mu.Lock()
	r.sample = v
	r.mu.Unlock()
}

// Waiting names what the main goroutine is about to block on (reported if the run ends at the horizon).
func (r *R) Waiting(what string) {
	r.mu.Lock()
	r.waiting = what
	r.mu.Unlock()
}

func (r *R) Note(format string, a ...any) {
	r.mu.Lock()
	if len(r.notes) < 200 {
		r.notes = append(r.notes, fmt.Sprintf(format, a...))
	}
	r.mu.Unlock()
}

// Choose draws a workload choice from the tape.
func (r *R) Choose(n int) int { return vsimrt.Choose(vsimrt.KWork, n) }

// ChooseF draws a fault-placement choice from the tape.
func (r *R) ChooseF(n int) int { return vsimrt.Choose(vsimrt.KFault, n) }

func (r *R) Chance(pct int) bool { return vsimrt.Choose(vsimrt.KWork, 100) < pct }

// Workload is one way of exercising a property.
type Workload struct {
	Prop     string
	Variant  string
	Horizon  time.Duration
	MaxSteps int
	MaxG     int
	Spin     int
	PCTLen   int
	Race     bool // also meaningful in the -race binary
	Weight   int  // share of runs in a batch
	Stall    int  // > 0: goroutines other than the harness body stall for simulated time at about every Stall-th scheduling point
	Body     func(r *R)
	// Post runs on the scheduler goroutine after the run ended (no SUT code may be called); it may
	// inspect recorded state and call r.failPost.
	Post func(r *R, reason string)
}

var workloads []*Workload

func register(w *Workload) {
	if w.Horizon == 0 {
		w.Horizon = 10 * time.Minute
	}
	if w.MaxSteps == 0 {
		w.MaxSteps = 100000
	}
	if w.MaxG == 0 {
		w.MaxG = 2048
	}
	if w.Weight == 0 {
		w.Weight = 1
	}
	if w.PCTLen == 0 {
		w.PCTLen = 400
	}
	workloads = append(workloads, w)
}

func workloadsOf(prop string) []*Workload {
	var out []*Workload
	for _, w := range workloads {
		if w.Prop == prop {
			out = append(out, w)
		}
	}
	sort.SliceStable(out, func(i, j int) bool { return out[i].Variant < out[j].Variant })
	return out
}

func findWorkload(prop, variant string) *Workload {
	for _, w := range workloads {
		if w.Prop == prop && w.Variant == variant {
			return w
		}
	}
	return nil
}

func splitmix(x uint64) uint64 {
	x += 0x9E3779B97F4A7C15
	z := x
	z = (z ^ (z >> 30)) * 0xBF58476D1CE4E5B9
	z = (z ^ (z >> 27)) * 0x94D049BB133111EB
	return z ^ (z >> 31)
}

func paramsOf(seed uint64) Params {
	h := splitmix(seed ^ 0xABCDEF)
	var p Params
	switch h % 10 {
	case 0, 1, 2:
		p.Strategy = 0
	case 3, 4, 5, 6:
		p.Strategy = 1
		p.Sticky = []uint64{50, 75, 90, 98}[(h>>8)%4]
	default:
		p.Strategy = 2
		p.PCTDepth = 1 + int((h>>8)%3)
	}
	p.MapPerm = (h>>16)%2 == 1
	p.UnlockYield = (h>>20)%3 != 0
	return p
}

// Result of one run (one JSON line of the worker protocol).
type Result struct {
	Prop      string         `json:"prop"`
	Variant   string         `json:"variant"`
	Seed      uint64         `json:"seed"`
	OK        bool           `json:"ok"`
	Viol      *Violation     `json:"viol,omitempty"`
	Reason    string         `json:"reason"`
	Steps     int            `json:"steps"`
	SimNs     int64          `json:"sim_ns"`
	Hash      uint64         `json:"hash"`
	Preempt   int            `json:"preempt"`
	Ext       int            `json:"ext"`
	Created   int            `json:"created"`
	Kinds     map[string]int `json:"kinds,omitempty"`
	Counts    map[string]int `json:"counts,omitempty"`
	Sample    any            `json:"sample,omitempty"`
	Tape      []vsimrt.Draw  `json:"-"`
	TapeLen   int            `json:"tape_len"`
	Diverged  string         `json:"diverged,omitempty"`
	Undecided string         `json:"undecided,omitempty"`
	Notes     []string       `json:"notes,omitempty"`
	Trace     []string       `json:"-"`
}

type execOpts struct {
	replay   []vsimrt.Draw
	strict   bool
	trace    bool
	keepTape bool
}

// execute runs one workload once inside a fresh synctest bubble.
func execute(t *testing.T, w *Workload, tier string, seed uint64, index int, o execOpts) (res Result) {
	res = Result{Prop: w.Prop, Variant: w.Variant, Seed: seed}
	r := &R{Prop: w.Prop, Variant: w.Variant, Tier: tier, Seed: seed, Index: index, counts: map[string]int{}}
	var reason string
	func() {
		defer func() {
			if p := recover(); p != nil {
				msg := fmt.Sprint(p)
				if strings.Contains(msg, "blocked goroutines remain") || strings.Contains(msg, "deadlock: all goroutines in bubble are blocked") {
					return // goroutines blocked for ever in real channel operations at the end of the bubble: expected, see Live()
				}
				r.mu.Lock()
				if r.viol == nil {
					r.viol = &Violation{Class: w.Prop + "/harness-panic", Msg: msg}
				}
				r.mu.Unlock()
			}
		}()
		synctest.Test(t, func(t *testing.T) {
			p := paramsOf(seed)
			cfg := vsimrt.Config{Seed: seed, MaxG: w.MaxG, MaxSteps: w.MaxSteps, SpinLimit: w.Spin, Strategy: p.Strategy, Sticky: p.Sticky,
				PCTDepth: p.PCTDepth, PCTLen: w.PCTLen, MapPerm: p.MapPerm, UnlockYield: p.UnlockYield, Replay: o.replay, Strict: o.strict, Trace: o.trace, StallMean: w.Stall}
			s := vsimrt.New(cfg)
			defer s.Close()
			r.Sim = s
			s.PanicHook = func(v any, stack string) {
				r.Fail(w.Prop+"/panic "+firstLine(fmt.Sprint(v)), "unrecovered panic in a goroutine of the system under test: %v\n%s", v, stack)
			}
			s.GoMain(func() { w.Body(r) })
			reason = s.Run(w.Horizon)
			res.Steps, res.Hash, res.Preempt, res.Ext, res.Created = s.Steps, s.Hash, s.Preempt, s.Ext, s.Created
			res.SimNs = int64(s.SimTime())
			if s.Stalls > 0 {
				r.CountN("fault:goroutine-stall", s.Stalls)
			}
			res.Kinds = map[string]int{}
			for i, n := range s.KindCount {
				if n > 0 {
					res.Kinds[vsimrt.KindNames[i]] = n
				}
			}
			switch {
			case reason == "spin":
				r.failPost(w.Prop+"/spin in "+s.SpinInfo, "a goroutine kept executing scheduling points (%d) while nothing made progress; hottest function: %s", w.Spin, s.SpinInfo)
			case reason == "horizon":
				r.failPost(w.Prop+"/hang waiting-for="+r.waiting, "the driving goroutine was still blocked at the horizon of %v simulated time, waiting for: %s; live goroutines: %s", w.Horizon, r.waiting, describeLive(s.Live()))
			case reason == "max-steps":
				r.failPost(w.Prop+"/step-cap", "the run did not finish within %d scheduling decisions (livelock or unbounded work); live: %s", w.MaxSteps, describeLive(s.Live()))
			case strings.HasPrefix(reason, "stopped:goroutine-slots"):
				res.Undecided = "goroutine slots exhausted"
			}
			if w.Post != nil && !r.Failed() && res.Undecided == "" {
				w.Post(r, reason)
			}
			if o.keepTape || r.Failed() {
				res.Tape = s.Tape()
			}
			res.TapeLen = len(s.Tape())
			res.Diverged = s.Diverge
			if o.trace {
				res.Trace = append([]string(nil), s.TraceLog()...)
			}
			s.Shutdown()
		})
	}()
	r.mu.Lock()
	res.Viol = r.viol
	res.Counts = r.counts
	res.Sample = r.sample
	res.Notes = r.notes
	r.mu.Unlock()
	res.OK = res.Viol == nil
	res.Reason = reason
	return res
}

func (r *R) failPost(class, format string, a ...any) {
	r.mu.Lock()
	if r.viol == nil {
		r.viol = &Violation{Class: class, Msg: fmt.Sprintf(format, a...), Step: r.Sim.Steps}
	}
	r.mu.Unlock()
}

func firstLine(s string) string {
	if i := strings.IndexByte(s, '\n'); i >= 0 {
		s = s[:i]
	}
	if len(s) > 120 {
		s = s[:120]
	}
	return s
}

func describeLive(l []vsimrt.GInfo) string {
	var parts []string
	for _, g := range l {
		p := fmt.Sprintf("[%s created-at %s", g.State, g.Site)
		if g.Blocked != "" && g.State == "blocked-on-lock" {
			p += " blocked-at " + g.Blocked
		}
		parts = append(parts, p+"]")
	}
	sort.Strings(parts)
	if len(parts) > 12 {
		parts = append(parts[:12], fmt.Sprintf("... %d more", len(parts)-12))
	}
	return strings.Join(parts, " ")
}
