//go:build vsim

package vsimharness

import (
	"errors"
	"fmt"
	"strings"
	"sync"
	"time"

	"github.com/kercylan98/vivid"
	vsimrt "vsimrt/simrt"
)

// C05 - lifecycle order per incarnation (DESIGN.md 3, C05).

func init() {
	register(&Workload{Prop: "C05", Variant: "lifecycle", Horizon: 10 * time.Minute, MaxSteps: 150000, MaxG: 4096, Spin: 5000, PCTLen: 3000, Body: c05Lifecycle})
	register(&Workload{Prop: "C05", Variant: "spawn-race", Horizon: 10 * time.Minute, MaxSteps: 150000, MaxG: 4096, Spin: 5000, PCTLen: 1200, Body: c05SpawnRace})
	// the same runs judged for C09: mail that reached a child before its (failing) OnLaunch waits for the supervisor
	register(&Workload{Prop: "C09", Variant: "spawn-race", Horizon: 10 * time.Minute, MaxSteps: 150000, MaxG: 4096, Spin: 5000, PCTLen: 1200, Body: c05SpawnRace})
	// ... and by C02: what reached a child before its OnLaunch is older than everything still queued and keeps its place
	register(&Workload{Prop: "C02", Variant: "spawn-race", Horizon: 10 * time.Minute, MaxSteps: 150000, MaxG: 4096, Spin: 5000, PCTLen: 1200, Body: c05SpawnRace})
}

var restartish = []vivid.SupervisionDecision{vivid.SupervisionDecisionRestart, vivid.SupervisionDecisionRestart, vivid.SupervisionDecisionGracefulRestart,
	vivid.SupervisionDecisionRestart, vivid.SupervisionDecisionResume, vivid.SupervisionDecisionStop, vivid.SupervisionDecisionGracefulRestart, vivid.SupervisionDecisionRestart}

func c05Lifecycle(r *R) {
	// decisions are drawn when the maker is consulted (from the tape, in the supervisor's goroutine)
	decide := func(n int, ctx vivid.SupervisionContext) vivid.SupervisionDecision {
		return restartish[vsimrt.Choose(vsimrt.KWork, len(restartish))]
	}
	w := newWorld(r, WorldOpt{MakeStrategy: func(w *World) vivid.SupervisionStrategy { return vivid.OneForOneStrategy(w.NewMaker("system", decide)) }})
	if r.Failed() {
		return
	}
	nChildren := 1 + r.Choose(3)
	oneForAll := r.Chance(30)
	aM := w.NewMaker("a", decide)
	var strat vivid.SupervisionStrategy = vivid.OneForOneStrategy(aM)
	if oneForAll {
		strat = vivid.OneForAllStrategy(aM)
	}
	failLaunch := map[string]int{} // path -> fail OnLaunch while incarnation < n
	failOnChildKilled := map[string]bool{}
	var cfgMu sync.Mutex
	launchHook := func(ctx vivid.ActorContext, p *Probe) {
		cfgMu.Lock()
		n := failLaunch[p.Path]
		cfgMu.Unlock()
		w.mu.Lock()
		inc := w.inc[p.Path]
		w.mu.Unlock()
		if inc < n {
			r.Count("fail-site:OnLaunch")
			panic(fmt.Sprintf("launch failure of %s inc %d", p.Path, inc))
		}
	}
	childKilledHook := func(ctx vivid.ActorContext, p *Probe, ref vivid.ActorRef) {
		if ref.Equals(ctx.Ref()) {
			return
		}
		cfgMu.Lock()
		f := failOnChildKilled[p.Path]
		failOnChildKilled[p.Path] = false
		cfgMu.Unlock()
		if f {
			r.Count("fail-site:child-OnKilled")
			panic("failure while handling a child's OnKilled")
		}
	}
	// a failing OnRestarted hook turns the restarted actor into a zombie: its behaviour sees nothing at all any more - not
	// while it is a zombie and not after a kill released it, whatever reference the later mail comes through
	failRestart := map[string]bool{}
	zombies := map[string]bool{}
	restartedHook := func(p *Probe) error {
		cfgMu.Lock()
		f := failRestart[p.Path]
		if f {
			failRestart[p.Path] = false
			zombies[p.Path] = true
		}
		cfgMu.Unlock()
		if f {
			r.Count("zombie-created")
			return errors.New("restarted hook refuses")
		}
		return nil
	}
	var refMu sync.Mutex
	origRefs := map[string]vivid.ActorRef{}
	topLaunch := func(ctx vivid.ActorContext, p *Probe) {
		launchHook(ctx, p)
		kids := ctx.Children() // references as ActorOf returned them: they cache the mailbox
		refMu.Lock()
		for _, k := range kids {
			if origRefs[k.GetPath()] == nil {
				origRefs[k.GetPath()] = k
			}
		}
		refMu.Unlock()
	}
	top := &Spec{Name: "a", Strategy: strat, Provider: r.Chance(50), OnLaunch: topLaunch, OnKilled: childKilledHook}
	var paths []string
	paths = append(paths, "/a")
	desc := map[string]any{"one_for_all": oneForAll}
	var cdesc []string
	for i := 0; i < nChildren; i++ {
		c := &Spec{Name: fmt.Sprintf("b%d", i), Provider: r.Chance(50), OnLaunch: launchHook, OnKilled: childKilledHook, Restarted: restartedHook}
		d := c.Name
		if c.Provider {
			d += "(provider)"
		}
		if r.Chance(40) {
			bM := w.NewMaker(c.Name, decide)
			c.Strategy = vivid.OneForOneStrategy(bM)
			g := &Spec{Name: "g", Provider: r.Chance(50), OnLaunch: launchHook}
			c.Children = append(c.Children, g)
			paths = append(paths, "/a/"+c.Name+"/g")
			d += "+g"
			if r.Chance(25) {
				failLaunch["/a/"+c.Name+"/g"] = 1 + r.Choose(2)
				d += "(g fails launch)"
			}
		}
		if r.Chance(15) {
			failLaunch["/a/"+c.Name] = 1
			d += "(fails first launch)"
		}
		if r.Chance(20) {
			// spawns a child while it is itself terminating: the late child must still see OnLaunch first
			c.OnKill = func(ctx vivid.ActorContext, p *Probe) {
				if _, err := w.SpawnIn(ctx, &Spec{Name: "z", OnLaunch: launchHook}); err == nil {
					r.Count("spawned-in-OnKill-handler")
				}
			}
			d += "(spawns z in its OnKill handler)"
		}
		top.Children = append(top.Children, c)
		paths = append(paths, "/a/"+c.Name)
		cdesc = append(cdesc, d)
	}
	desc["children"] = cdesc
	aRef, err := w.Spawn(top)
	if err != nil {
		r.Fail("C05/harness", "spawn: %v", err)
		return
	}
	_ = aRef
	vsimrt.Settle()

	nOps := 4 + r.Choose(14)
	nSenders := 1 + r.Choose(2)
	type op struct {
		kind   int
		target string
	}
	ops := make([][]op, nSenders)
	var odesc []string
	for i := 0; i < nOps; i++ {
		o := op{kind: r.Choose(11), target: paths[r.Choose(len(paths))]}
		if o.kind == 10 && strings.Count(o.target, "/") != 2 {
			o.kind = 0 // only the children of /a have the failing hook
		}
		ops[i%nSenders] = append(ops[i%nSenders], o)
		odesc = append(odesc, fmt.Sprintf("%s->%s", []string{"tell", "tell", "panic", "Failed", "become", "bad-prelaunch-spawn", "sched-fail", "kill-child-then-fail", "kill", "watch-another-actor", "zombie-kill-tell"}[o.kind], o.target))
	}
	desc["ops"] = odesc
	r.Sample(desc)
	var spawnErrs []string
	var seMu sync.Mutex
	var wg sync.WaitGroup
	for si := 0; si < nSenders; si++ {
		si := si
		wg.Add(1)
		vsimrt.Go("c05.sender", func() {
			defer wg.Done()
			name := fmt.Sprintf("s%d", si)
			for k, o := range ops[si] {
				ref := w.RefBy("create", nil, o.target)
				refMu.Lock()
				orig := origRefs[o.target]
				refMu.Unlock()
				if orig != nil && r.Chance(40) {
					ref = orig
					r.Count("sent via the reference ActorOf returned")
				}
				switch o.kind {
				case 10:
					// the next restart of the target fails in its hook (zombie, if its supervisor decides to restart it); the
					// zombie is then released by a kill and told one more message through the original reference
					cfgMu.Lock()
					failRestart[o.target] = true
					cfgMu.Unlock()
					w.Tell(ref, w.NewCmd(name, k, func(ctx vivid.ActorContext, p *Probe) { panic("failure before the failing restart hook") }))
					vsimrt.Sleep(20 * time.Millisecond)
					w.Sys.Kill(ref, r.Chance(50), "release")
					vsimrt.Sleep(10 * time.Millisecond)
					if orig != nil {
						w.Tell(orig, w.NewCmd(name+"/late", k, nil))
						if r.Chance(30) {
							w.Sys.Kill(orig, false, "second kill")
						}
					}
					cfgMu.Lock()
					failRestart[o.target] = false
					cfgMu.Unlock()
					r.Count("zombie-kill-tell")
				case 0, 1:
					w.Tell(ref, w.NewCmd(name, k, nil))
				case 2:
					w.Tell(ref, w.NewCmd(name, k, func(ctx vivid.ActorContext, p *Probe) {
						r.Count("fail-site:user-message-panic")
						panic("boom")
					}))
				case 3:
					w.Tell(ref, w.NewCmd(name, k, func(ctx vivid.ActorContext, p *Probe) {
						r.Count("fail-site:user-message-Failed")
						ctx.Failed(errors.New("reported failure"))
					}))
				case 4:
					w.Tell(ref, w.NewCmd(name, k, func(ctx vivid.ActorContext, p *Probe) {
						r.Count("become")
						ctx.Become(func(c vivid.ActorContext) { p.receive(c, "become") })
					}))
				case 5:
					w.Tell(ref, w.NewCmd(name, k, func(ctx vivid.ActorContext, p *Probe) {
						bad := &Spec{Name: fmt.Sprintf("bad%d", w.NewID()), Prelaunch: func(*Probe) error { return errors.New("prelaunch refused") }}
						ref, err := w.SpawnIn(ctx, bad)
						path := strings.TrimSuffix(ctx.Ref().GetPath(), "/") + "/" + bad.Name
						r.Count("prelaunch-failure-spawn")
						if err == nil {
							r.Fail("C05/prelaunch-failure-ignored", "ActorOf returned no error (ref %v) although OnPrelaunch failed for %s", ref, path)
							return
						}
						seMu.Lock()
						spawnErrs = append(spawnErrs, path)
						seMu.Unlock()
					}))
				case 6:
					w.Tell(ref, w.NewCmd(name, k, func(ctx vivid.ActorContext, p *Probe) {
						_ = ctx.Scheduler().Once(ctx.Ref(), 50*time.Millisecond, w.NewCmd("sched", 0, func(ctx vivid.ActorContext, p *Probe) {
							r.Count("fail-site:scheduled-message")
							panic("scheduled boom")
						}))
					}))
				case 7:
					// make the target fail while it handles the OnKilled of one of its children
					w.Tell(ref, w.NewCmd(name, k, func(ctx vivid.ActorContext, p *Probe) {
						kids := ctx.Children()
						if len(kids) == 0 {
							return
						}
						cfgMu.Lock()
						failOnChildKilled[p.Path] = true
						cfgMu.Unlock()
						ctx.Kill(kids[0], false, "scripted")
					}))
				case 9:
					// the target watches some other actor of the tree: when the watcher dies first, the watched actor's
					// termination notice still finds the dead watcher's mailbox (through the reference it registered with)
					other := w.RefBy("create", nil, paths[r.Choose(len(paths))])
					w.Tell(ref, w.NewCmd(name, k, func(ctx vivid.ActorContext, p *Probe) {
						r.Count("watch")
						ctx.Watch(other)
					}))
				case 8:
					if r.Chance(40) {
						w.Sys.Kill(ref, r.Chance(50), "scripted kill")
						r.Count("kill")
					} else {
						w.Tell(ref, w.NewCmd(name, k, nil))
					}
				}
			}
		})
	}
	r.Waiting("senders")
	wg.Wait()
	vsimrt.Yield()
	vsimrt.SettleFor(time.Second)
	if r.Failed() {
		return
	}
	// probes after the dust settled: every path gets one more message (exercises "nothing after OnKilled")
	for _, p := range paths {
		w.Tell(w.RefBy("create", nil, p), w.NewCmd("final", 0, nil))
		refMu.Lock()
		orig := origRefs[p]
		refMu.Unlock()
		if orig != nil {
			w.Tell(orig, w.NewCmd("final-orig", 0, nil))
		}
	}
	vsimrt.SettleFor(time.Second)
	if err := w.Stop(30 * time.Second); err != nil {
		r.Note("Stop returned %v", err)
	}
	vsimrt.SettleFor(time.Second)
	if r.Failed() {
		return
	}
	cfgMu.Lock()
	c05Zombies = map[string]bool{}
	for k, v := range zombies {
		c05Zombies[k] = v
	}
	cfgMu.Unlock()
	c05Oracle(r, w, spawnErrs)
	c05Zombies = nil
	if r.Failed() {
		w.DumpNotes(400)
	}
}

// c05Zombies: paths whose OnRestarted hook failed in the run being judged (one run at a time per process)
var c05Zombies map[string]bool

// c05Oracle checks every actor's behaviour-visible trace against
// ( OnLaunch any* [OnKill] OnKilled(self) )  per incarnation.
func c05Oracle(r *R, w *World, spawnErrs []string) {
	evs := w.Events()
	byPath := map[string][]Event{}
	for _, e := range evs {
		if strings.HasPrefix(e.Path, "@") {
			continue
		}
		byPath[e.Path] = append(byPath[e.Path], e)
	}
	for _, p := range spawnErrs {
		byPath[p] = filter(byPath[p], func(e Event) bool { return e.Kind != "Hook" })
		if len(byPath[p]) > 0 {
			r.failPost("C05/failed-spawn-received-messages", "ActorOf for %s returned an error but its behaviour recorded: %s", p, fmtEvents(byPath[p], 6))
			return
		}
	}
	lives := Lives(evs)
	restarts := 0
	for _, path := range sortedPaths(lives) {
		prevInst := -1
		seq := byPath[path]
		for k, life := range lives[path] {
			inc := life.Events
			if life.ByRestart {
				restarts++
			} else {
				prevInst = -1
			}
			if len(inc) == 0 {
				if life.ByRestart && k == len(lives[path])-1 && !c05Zombies[path] {
					// restarted, and then nothing at all: the new incarnation never saw its OnLaunch
					r.failPost("C05/restart-without-onlaunch", "%s: incarnation %d was started by a restart but its behaviour never received OnLaunch (nor anything else); whole trace: %s", path, k, fmtEvents(seq, 30))
					return
				}
				continue
			}
			if inc[0].Kind != "OnLaunch" {
				later := false
				for _, e := range inc {
					if e.Kind == "OnLaunch" {
						later = true
					}
				}
				cls := "C05/onlaunch-missing"
				if later {
					cls = "C05/message-before-onlaunch"
				}
				if life.ByRestart {
					cls += " after-restart"
				} else {
					cls += " after-spawn"
				}
				if inc[0].Kind == "Cmd" {
					cls += " overtaken-by=user-message"
				} else {
					cls += " overtaken-by=" + inc[0].Kind
				}
				r.failPost(cls, "%s: incarnation %d starts with %s instead of OnLaunch; incarnation trace: %s", path, k, inc[0].String(), fmtEvents(inc, 12))
				return
			}
			if inc[0].Beh != "main" {
				r.failPost("C05/restart-keeps-become", "%s: incarnation %d: OnLaunch was handled by the Become'd behaviour, the stack was not reset", path, k)
				return
			}
			if life.ByRestart && len(inc) > 1 && inc[1].Beh != "main" {
				r.failPost("C05/restart-keeps-become", "%s: incarnation %d: first message after the restart was handled by behaviour %q", path, k, inc[1].Beh)
				return
			}
			launches, selfKilled, killAt := 0, -1, -1
			for i, e := range inc {
				switch {
				case e.Kind == "OnLaunch":
					launches++
					if launches > 1 {
						r.failPost("C05/onlaunch-to-wrong-actor", "%s: incarnation %d received a second OnLaunch (%s): an OnLaunch that belongs to another actor's (re)start was delivered here; incarnation trace: %s", path, k, e.String(), fmtEvents(inc, 14))
						return
					}
				case e.Kind == "OnKill":
					if killAt < 0 {
						killAt = i
					}
				case e.Kind == "OnKilled" && e.Ref == path:
					if selfKilled >= 0 {
						r.failPost("C05/own-onkilled-twice", "%s: incarnation %d saw its own OnKilled twice", path, k)
						return
					}
					selfKilled = i
				}
				if selfKilled >= 0 && i > selfKilled {
					r.failPost("C05/message-after-own-onkilled", "%s: incarnation %d: %s was delivered to the behaviour after its own OnKilled", path, k, e.String())
					return
				}
			}
			if killAt >= 0 && selfKilled >= 0 && killAt > selfKilled {
				r.failPost("C05/onkill-after-onkilled", "%s: incarnation %d: OnKill after own OnKilled", path, k)
				return
			}
			if k < len(lives[path])-1 && selfKilled < 0 {
				r.failPost("C05/replaced-without-onkilled", "%s: incarnation %d was replaced (restart or re-spawn) without seeing its own OnKilled; trace: %s", path, k, fmtEvents(inc, 12))
				return
			}
			// provider => fresh instance per incarnation
			inst := inc[0].Inst
			if life.ByRestart && w.specProvider(path) && inst == prevInst {
				r.failPost("C05/restart-reused-instance", "%s: incarnation %d runs on the same actor instance (%d) although a provider is configured", path, k, inst)
				return
			}
			prevInst = inst
		}
	}
	r.CountN("restarts-observed", restarts)
}

// specProvider: whether the probe at path was spawned with a provider (recorded at spawn time).
func (w *World) specProvider(path string) bool {
	w.mu.Lock()
	defer w.mu.Unlock()
	return w.provider[path]
}

// c05SpawnRace aims at the window between a child's registration and its OnLaunch: while a parent spawns a child, outside
// senders that know the child's path tell it messages (and one of them may kill it). The child's OnLaunch fails in half
// of the runs and its supervisor answers with a decision fixed for the run. Besides the lifecycle automaton this checks
// what happens to the early messages: they are handled after OnLaunch, never before it; if OnLaunch failed they wait for
// the supervisor like any queued mail - a failed actor whose restart or stop is pending handles no user message.
func c05SpawnRace(r *R) {
	decs := []vivid.SupervisionDecision{vivid.SupervisionDecisionRestart, vivid.SupervisionDecisionStop, vivid.SupervisionDecisionResume}
	dec := decs[r.Choose(len(decs))]
	w := newWorld(r, WorldOpt{})
	if r.Failed() {
		return
	}
	failLaunch := r.Chance(50)
	nKids := 1 + r.Choose(3)
	launchHook := func(ctx vivid.ActorContext, p *Probe) {
		w.mu.Lock()
		inc := w.inc[p.Path]
		w.mu.Unlock()
		if failLaunch && inc == 0 {
			r.Count("fail-site:OnLaunch")
			panic("launch failure")
		}
	}
	pm := w.NewMaker("p", func(n int, ctx vivid.SupervisionContext) vivid.SupervisionDecision { return dec })
	if _, err := w.Spawn(&Spec{Name: "p", Strategy: vivid.OneForOneStrategy(pm)}); err != nil {
		r.Fail("C05/harness", "spawn: %v", err)
		return
	}
	vsimrt.Settle()
	r.Sample(map[string]any{"onlaunch_fails": failLaunch, "decision": fmt.Sprint(dec), "children": nKids})
	var wg sync.WaitGroup
	wg.Add(1)
	vsimrt.Go("c05.spawner", func() {
		defer wg.Done()
		w.Tell(w.RefBy("create", nil, "/p"), w.NewCmd("spawn", 0, func(ctx vivid.ActorContext, p *Probe) {
			for i := 0; i < nKids; i++ {
				_, _ = w.SpawnIn(ctx, &Spec{Name: fmt.Sprintf("c%d", i), OnLaunch: launchHook})
			}
		}))
	})
	nSenders := 1 + r.Choose(2)
	killer := r.Chance(20)
	for si := 0; si < nSenders; si++ {
		si := si
		wg.Add(1)
		vsimrt.Go("c05.early-sender", func() {
			defer wg.Done()
			for k := 0; k < 6; k++ {
				ref := w.RefBy("create", nil, fmt.Sprintf("/p/c%d", k%nKids))
				if killer && si == 0 && k == 3 {
					w.Sys.Kill(ref, false, "early kill")
					continue
				}
				w.Tell(ref, w.NewCmd(fmt.Sprintf("s%d", si), k, nil))
				vsimrt.Yield()
			}
		})
	}
	r.Waiting("spawner and early senders")
	wg.Wait()
	vsimrt.Yield()
	vsimrt.SettleFor(time.Second)
	if r.Failed() {
		return
	}
	for i := 0; i < nKids; i++ {
		w.Tell(w.RefBy("create", nil, fmt.Sprintf("/p/c%d", i)), w.NewCmd("final", 0, nil))
	}
	vsimrt.SettleFor(time.Second)
	if err := w.Stop(30 * time.Second); err != nil {
		r.Note("Stop returned %v", err)
	}
	vsimrt.SettleFor(time.Second)
	if r.Failed() {
		return
	}
	if r.Prop == "C02" {
		// per-sender order at the behaviour, across the launch (and across a restart: queued mail keeps its order)
		last := map[string]int{}
		for _, e := range w.Events() {
			if e.Kind != "Cmd" || !strings.HasPrefix(e.Path, "/p/c") || !strings.HasPrefix(e.Info, "from=s") {
				continue
			}
			var si, seq int
			if _, err := fmt.Sscanf(e.Info, "from=s%d seq=%d", &si, &seq); err != nil {
				continue
			}
			key := fmt.Sprintf("%s<-s%d", e.Path, si)
			if prev, ok := last[key]; ok && seq < prev {
				r.Fail("C02/order-violated across-launch", "%s: message #%d of sender s%d was handled after its message #%d (the child was being spawned while the sender, holding a by-path reference, kept sending; OnLaunch failed: %v, decision %v)", e.Path, seq, si, prev, failLaunch, dec)
				w.DumpNotes(300)
				return
			}
			last[key] = seq
			r.Count("across-launch-order-checked")
		}
		return
	}
	if r.Prop == "C05" {
		c05Oracle(r, w, nil)
		if r.Failed() {
			w.DumpNotes(400)
		}
		return
	}
	// C09: a first incarnation whose OnLaunch failed handles no user message unless the decision was Resume
	if failLaunch && dec != vivid.SupervisionDecisionResume {
		lives := Lives(w.Events())
		for _, path := range sortedPaths(lives) {
			if !strings.HasPrefix(path, "/p/c") || len(lives[path]) == 0 {
				continue
			}
			first := lives[path][0].Events
			if len(first) == 0 || first[0].Kind != "OnLaunch" {
				continue
			}
			for _, e := range first[1:] {
				if e.Kind == "Cmd" {
					r.Count("early-message-seen")
					r.Fail("C09/failed-launch-handled-user-message decision="+fmt.Sprint(dec), "%s: OnLaunch failed and the supervisor decided %v, yet the failed incarnation handled %s before the decision took effect (a message that arrived before OnLaunch was handled while the actor was suspended); incarnation trace: %s", path, dec, e.String(), fmtEvents(first, 10))
					w.DumpNotes(400)
					return
				}
			}
		}
	}
}
