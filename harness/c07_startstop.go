//go:build vsim

package vsimharness

import (
	"errors"
	"fmt"
	"regexp"
	"strings"
	"sync"
	"time"

	"github.com/kercylan98/vivid"
	"vsimrt/simnet"
	vsimrt "vsimrt/simrt"
)

// C07 - Start/Stop/context-cancel is a one-way state machine that never hangs (DESIGN.md 3, C07).

func init() {
	register(&Workload{Prop: "C07", Variant: "sequential", Horizon: 20 * time.Minute, MaxSteps: 150000, MaxG: 4096, Spin: 5000, PCTLen: 1500, Body: func(r *R) { c07(r, false) }})
	register(&Workload{Prop: "C07", Variant: "concurrent", Horizon: 20 * time.Minute, MaxSteps: 150000, MaxG: 4096, Spin: 5000, PCTLen: 1500, Body: func(r *R) { c07(r, true) }})
	register(&Workload{Prop: "C07", Variant: "with-remoting", Horizon: 30 * time.Minute, MaxSteps: 600000, MaxG: 8192, Spin: 40000, PCTLen: 4000, Body: c07Remoting})
}

const (
	opStart = iota
	opStop
	opCancel
	opSpawn
)

var opNames = []string{"Start", "Stop", "Cancel", "ActorOf"}

type c07Result struct {
	op      int
	err     error
	took    time.Duration
	timeout time.Duration
}

func errName(err error) string {
	switch {
	case err == nil:
		return "nil"
	case errors.Is(err, vivid.ErrorActorSystemAlreadyStarted):
		return "already-started"
	case errors.Is(err, vivid.ErrorActorSystemAlreadyStopped):
		return "already-stopped"
	case errors.Is(err, vivid.ErrorActorSystemNotStarted):
		return "not-started"
	case errors.Is(err, vivid.ErrorActorSystemStopFailed):
		return "stop-failed"
	case errors.Is(err, vivid.ErrorActorSystemStartFailed):
		return "start-failed"
	}
	return "other(" + firstLine(err.Error()) + ")"
}

var lineRe = regexp.MustCompile(`:\d+`)

func c07(r *R, concurrent bool) {
	// 1 run in 12 (sequential only): Start fails (a remoting address without a port); everything afterwards must still be prompt
	failStart := !concurrent && r.Chance(8)
	opt := WorldOpt{NoStart: true}
	if failStart {
		opt.SysOpts = []vivid.ActorSystemOption{vivid.WithActorSystemRemoting("127.0.0.1")}
		r.Count("start-fails")
	}
	w := newWorld(r, opt)
	// 0 empty, 1 small tree, 2 tree with scheduled jobs, 3 an actor whose OnKill handler outlasts the Stop timeout (the first
	// Stop legitimately gives up; later calls must still return at once), 4 an actor that calls Stop itself while it is stopped
	tree := r.Choose(5)
	nOps := 1 + r.Choose(4)
	var ops []int
	for i := 0; i < nOps; i++ {
		if concurrent && r.Chance(30) {
			ops = append(ops, opSpawn) // ActorSystem.ActorOf from an outside goroutine, racing the other calls
		} else {
			ops = append(ops, r.Choose(3))
		}
	}
	stopTimeout := []time.Duration{500 * time.Millisecond, 5 * time.Second, 30 * time.Second}[r.Choose(3)]
	var names []string
	for _, o := range ops {
		names = append(names, opNames[o])
	}
	r.Sample(map[string]any{"ops": names, "tree": []string{"empty", "small", "jobs+slow", "outlasts-stop-timeout", "re-entrant-stop"}[tree], "stop_timeout": stopTimeout.String(), "concurrent": concurrent})

	var mu sync.Mutex
	var results, inner []c07Result
	started := false // model: a Start returned nil
	populated := false
	firstStopStep, spawnDoneStep := -1, -1
	populate := func() {
		if tree == 0 || populated {
			return
		}
		populated = true
		slowKill := func(ctx vivid.ActorContext, p *Probe) { vsimrt.Sleep(20 * time.Millisecond) } // keeps the ancestors in the killing state for a while
		spec := &Spec{Name: "p", Children: []*Spec{{Name: "c0", OnKill: slowKill}, {Name: "c1", Children: []*Spec{{Name: "g", OnKill: slowKill}}}}}
		if tree == 3 {
			spec.Children[0].OnKill = func(ctx vivid.ActorContext, p *Probe) { vsimrt.Sleep(stopTimeout + 3*time.Second) }
		}
		if tree == 4 {
			spec.Children[0].OnKill = func(ctx vivid.ActorContext, p *Probe) {
				t0 := time.Now()
				err := w.Sys.Stop(stopTimeout)
				vsimrt.Yield()
				mu.Lock()
				inner = append(inner, c07Result{op: opStop, err: err, took: time.Since(t0), timeout: stopTimeout})
				mu.Unlock()
				r.Count("stop-called-from-an-actor-being-stopped")
			}
		}
		if tree == 2 {
			spec.Children[0].OnLaunch = func(ctx vivid.ActorContext, p *Probe) {
				_ = ctx.Scheduler().Loop(ctx.Ref(), 200*time.Millisecond, w.NewCmd("loop", 0, nil))
				_ = ctx.Scheduler().Once(ctx.Ref(), 3*time.Second, w.NewCmd("once", 0, nil))
			}
		}
		if _, err := w.Spawn(spec); err != nil {
			r.Note("spawn after start failed: %v", err)
		}
		mu.Lock()
		spawnDoneStep = vsimrt.Step()
		mu.Unlock()
	}
	do := func(op int) {
		t0 := time.Now()
		var err error
		switch op {
		case opStart:
			r.Waiting("Start() to return")
			err = w.Sys.Start()
			vsimrt.Yield()
			if err == nil {
				mu.Lock()
				started = true
				mu.Unlock()
			}
		case opStop:
			mu.Lock()
			if firstStopStep < 0 {
				firstStopStep = vsimrt.Step()
			}
			mu.Unlock()
			r.Waiting("Stop() to return")
			err = w.Sys.Stop(stopTimeout)
			vsimrt.Yield()
		case opSpawn:
			mu.Lock()
			st := started
			mu.Unlock()
			if st {
				populate()
				name := fmt.Sprintf("late%d", w.NewID())
				if _, e := w.Spawn(&Spec{Name: name}); e == nil {
					r.Count("top-level-ActorOf-from-outside")
					mu.Lock()
					spawnDoneStep = vsimrt.Step()
					mu.Unlock()
				}
			}
			vsimrt.Yield()
		case opCancel:
			mu.Lock()
			if firstStopStep < 0 {
				firstStopStep = vsimrt.Step()
			}
			mu.Unlock()
			w.Cancel()
			vsimrt.Yield()
		}
		mu.Lock()
		results = append(results, c07Result{op: op, err: err, took: time.Since(t0), timeout: stopTimeout})
		mu.Unlock()
	}

	// "any further Start or Stop call returns promptly with the already-started / already-stopped / not-started error
	// instead of blocking": such a call takes no simulated time (the clock only advances while every goroutine is blocked)
	prompt := func(what string, res c07Result) bool {
		switch errName(res.err) {
		case "already-started", "already-stopped", "not-started":
			if res.took > time.Millisecond {
				r.Fail("C07/state-error-not-prompt op="+opNames[res.op]+" got="+errName(res.err), "%s: %s returned %q only after %v: it blocked instead of returning at once (tree %d, stop timeout %v)", what, opNames[res.op], errName(res.err), res.took, tree, stopTimeout)
				return false
			}
		}
		return true
	}
	if !concurrent {
		// reference model of the documented state machine
		state := "ready"
		cancelled := false
		for i, op := range ops {
			do(op)
			if r.Failed() {
				return
			}
			res := results[len(results)-1]
			got := errName(res.err)
			if !prompt(fmt.Sprintf("sequence %v call #%d", names, i), res) {
				return
			}
			var want []string
			switch op {
			case opStart:
				switch state {
				case "ready":
					if cancelled {
						want = []string{"nil", "start-failed"} // starting on an already cancelled context: either is acceptable
					} else {
						want = []string{"nil"}
					}
					if failStart {
						want = []string{"start-failed"}
					}
				case "started":
					want = []string{"already-started"}
				case "stopped":
					want = []string{"already-stopped"}
				}
				if got == "nil" {
					state = "started"
					populate()
					vsimrt.Settle()
					if cancelled {
						// the context was cancelled before Start: the system must stop by itself
						vsimrt.SettleFor(stopTimeout + time.Second)
						state = "stopped"
					}
				} else if got == "start-failed" {
					state = "stopped"
				}
			case opStop:
				switch state {
				case "ready":
					want = []string{"not-started"}
				case "started":
					want = []string{"nil"}
					if tree == 3 && populated {
						want = []string{"stop-failed"} // the slow actor outlasts the timeout
					}
					state = "stopped"
				case "stopped":
					want = []string{"already-stopped"}
				}
				if res.took > res.timeout+time.Millisecond {
					r.Fail("C07/stop-exceeded-timeout", "op %d: Stop(%v) returned after %v", i, res.timeout, res.took)
					return
				}
			case opCancel:
				cancelled = true
				if state == "started" {
					// same effect as Stop: give it the time Stop would have
					vsimrt.SettleFor(time.Minute + time.Second)
					state = "stopped"
				}
				continue
			}
			ok := false
			for _, wnt := range want {
				if got == wnt {
					ok = true
				}
			}
			if !ok {
				r.Fail(fmt.Sprintf("C07/wrong-result op=%s state=%s got=%s", opNames[op], state, got), "sequence %v: call #%d %s in state %q returned %q, documented: %v", names, i, opNames[op], state, got, want)
				return
			}
		}
	} else {
		n := 2 + r.Choose(2)
		var wg sync.WaitGroup
		for g := 0; g < n; g++ {
			g := g
			wg.Add(1)
			vsimrt.Go("c07.caller", func() {
				defer wg.Done()
				for i := g; i < len(ops); i += n {
					do(ops[i])
					mu.Lock()
					st := started
					mu.Unlock()
					if st && ops[i] == opStart {
						populate()
					}
				}
			})
		}
		r.Waiting("concurrent Start/Stop/Cancel callers to return")
		wg.Wait()
		vsimrt.Yield()
		if r.Failed() {
			return
		}
		starts, stops := 0, 0
		for i, res := range results {
			n := errName(res.err)
			if res.op == opSpawn {
				continue
			}
			if !prompt("concurrent callers", res) {
				return
			}
			if strings.HasPrefix(n, "other") {
				r.Fail("C07/undocumented-error", "call %d %s returned %v", i, opNames[res.op], res.err)
				return
			}
			if res.op == opStart && res.err == nil {
				starts++
			}
			if res.op == opStop && res.err == nil {
				stops++
			}
			if res.op == opStop && res.took > res.timeout+time.Millisecond {
				r.Fail("C07/stop-exceeded-timeout", "Stop(%v) returned after %v", res.timeout, res.took)
				return
			}
		}
		if starts > 1 {
			r.Fail("C07/start-succeeded-twice", "%d Start calls returned nil", starts)
			return
		}
		if stops > 1 {
			r.Fail("C07/stop-succeeded-twice", "%d Stop calls returned nil", stops)
			return
		}
	}
	// wind down: whatever happened, a final Stop must return promptly with nil or a documented error
	vsimrt.SettleFor(time.Minute + time.Second)
	r.Waiting("final Stop() to return")
	t0 := time.Now()
	err := w.Sys.Stop(stopTimeout)
	vsimrt.Yield()
	if d := time.Since(t0); d > stopTimeout+time.Millisecond {
		r.Fail("C07/stop-exceeded-timeout", "final Stop(%v) returned after %v", stopTimeout, d)
		return
	}
	fin := errName(err)
	mu.Lock()
	st := started
	mu.Unlock()
	anyStopFailed := fin == "stop-failed"
	mu.Lock()
	for _, res := range results {
		if res.op == opStop && errName(res.err) == "stop-failed" {
			anyStopFailed = true
		}
	}
	mu.Unlock()
	mu.Lock()
	for _, res := range inner {
		if errName(res.err) != "already-stopped" {
			mu.Unlock()
			r.Fail("C07/wrong-result op=Stop state=stopping got="+errName(res.err), "Stop called by an actor from its OnKill handler while the system was being stopped returned %q after %v, documented: already-stopped", errName(res.err), res.took)
			return
		}
		if !prompt("Stop called by an actor that is being stopped", res) {
			mu.Unlock()
			return
		}
	}
	mu.Unlock()
	if anyStopFailed && !(tree == 3 && populated) {
		// no actor of these trees takes longer than a few tens of simulated milliseconds to stop
		r.Fail("C07/stop-timed-out", "Stop(%v) gave up with 'stop failed' although no actor blocks: the tree never finished terminating; live goroutines: %s", stopTimeout, describeLive(r.Sim.Live()))
		w.DumpNotes(300)
		return
	}
	if strings.HasPrefix(fin, "other") || fin == "already-started" {
		r.Fail("C07/undocumented-error", "final Stop returned %v", err)
		return
	}
	if st && fin == "not-started" {
		r.Fail("C07/wrong-result op=Stop state=started got=not-started", "a Start call returned nil but the final Stop says not-started")
		return
	}
	vsimrt.SettleFor(5 * time.Second)
	if r.Failed() {
		return
	}
	// every actor of a started system is terminated
	if st && populated && fin != "stop-failed" {
		lives := Lives(w.Events())
		for _, path := range sortedPaths(lives) {
			ls := lives[path]
			last := ls[len(ls)-1]
			dead := false
			for _, e := range last.Events {
				if e.Kind == "OnKilled" && e.Ref == path {
					dead = true
				}
			}
			if len(last.Events) > 0 && !dead {
				cls := "C07/actor-survived-stop"
				mu.Lock()
				if firstStopStep >= 0 && spawnDoneStep > firstStopStep {
					cls += " top-level-ActorOf-racing-stop"
				}
				mu.Unlock()
				r.Fail(cls, "%s was not terminated after the system stopped (final Stop returned %s); its trace: %s", path, fin, fmtEvents(last.Events, 10))
				return
			}
		}
	}
	// leak oracle: no registered goroutine of the system is alive after Stop and quiescence
	if st && fin != "stop-failed" {
		live := r.Sim.Live()
		if len(live) > 0 {
			g := live[0]
			site := lineRe.ReplaceAllString(g.Site, "")
			r.Fail("C07/goroutine-leak created-at="+site+" state="+g.State, "after Stop and quiescence %d goroutine(s) of the system are still alive: %s", len(live), describeLive(live))
		}
	}
}

// Start/Stop/cancel on a system with remoting: a listener, an accepted and a dialled connection, an outbound queue
// to an unreachable peer. After Stop no goroutine of the stopped system may be alive (accept loop, connection
// readers, the outbound sender goroutine, timers).
func c07Remoting(r *R) {
	nw := simnet.New()
	nw.ChunkMode = simnet.ChunkMixed
	peer := StartRNode(r, nw, 2, "127.0.0.1:9402", RNodeOpt{ReconnectLimit: 1, InitialDelay: 50 * time.Millisecond, MaxDelay: 100 * time.Millisecond})
	if r.Failed() {
		return
	}
	peer.Sink("sink")
	n := StartRNode(r, nw, 1, "127.0.0.1:9401", RNodeOpt{ReconnectLimit: []int{0, 1, 3}[r.Choose(3)], InitialDelay: 50 * time.Millisecond, MaxDelay: 200 * time.Millisecond})
	if r.Failed() {
		return
	}
	n.Sink("sink")
	vsimrt.Settle()
	traffic := r.Choose(4) // 0 none, 1 outbound, 2 both directions, 3 both + messages to an unreachable third address
	useCancel := false
	stopTimeout := []time.Duration{2 * time.Second, 10 * time.Second, 30 * time.Second}[r.Choose(3)]
	second := r.Choose(3) // what follows the first Stop: 0 nothing, 1 Stop again, 2 Start again
	r.Sample(map[string]any{"traffic": []string{"none", "outbound", "both", "both+unreachable"}[traffic], "stop_timeout": stopTimeout.String(), "then": []string{"-", "Stop", "Start"}[second]})
	send := func(from, to *RNode, k int) {
		from.Do(func() {
			ref, _ := from.Sys.CreateRef(to.Addr, "/sink")
			for i := 0; i < k; i++ {
				from.Sys.Tell(ref, newRMsg("c07", int64(i), 40, 0))
			}
		})
	}
	if traffic >= 1 {
		send(n, peer, 3)
	}
	if traffic >= 2 {
		send(peer, n, 3)
	}
	if traffic == 3 {
		n.Do(func() {
			ref, _ := n.Sys.CreateRef("127.0.0.1:9499", "/nobody")
			n.Sys.Tell(ref, newRMsg("c07", 99, 10, 0))
		})
	}
	if r.Chance(50) {
		vsimrt.SettleFor(200 * time.Millisecond)
	}
	_ = useCancel
	t0 := time.Now()
	var err error
	n.Do(func() {
		r.Waiting("Stop() of the system with remoting")
		err = n.Sys.Stop(stopTimeout)
		vsimrt.Yield()
	})
	took := time.Since(t0)
	if took > stopTimeout+time.Millisecond {
		r.Fail("C07/stop-exceeded-timeout with-remoting", "Stop(%v) of a system with remoting returned after %v", stopTimeout, took)
		return
	}
	if err != nil {
		r.Fail("C07/stop-timed-out with-remoting", "Stop(%v) of a system with remoting (traffic: %s) returned %v; live goroutines of the node: %s", stopTimeout, []string{"none", "outbound", "both", "both+unreachable"}[traffic], err, describeLive(liveOfTag(r, 1)))
		return
	}
	switch second {
	case 1:
		n.Do(func() {
			r.Waiting("second Stop()")
			err = n.Sys.Stop(stopTimeout)
			vsimrt.Yield()
		})
		if errName(err) != "already-stopped" {
			r.Fail("C07/wrong-result op=Stop state=stopped got="+errName(err)+" with-remoting", "second Stop returned %v", err)
			return
		}
	case 2:
		n.Do(func() {
			r.Waiting("Start() after Stop()")
			err = n.Sys.Start()
			vsimrt.Yield()
		})
		if errName(err) != "already-stopped" {
			r.Fail("C07/wrong-result op=Start state=stopped got="+errName(err)+" with-remoting", "Start after Stop returned %v", err)
			return
		}
	}
	// the retries of the message to the unreachable address are bounded (limit <= 3, delays <= 200 ms) and must not
	// outlive the system; give everything a generous moment, then look for survivors of node 1
	vsimrt.SettleFor(20 * time.Second)
	if live := liveOfTag(r, 1); len(live) > 0 {
		g := live[0]
		r.Fail("C07/goroutine-leak with-remoting created-at="+lineRe.ReplaceAllString(g.Site, "")+" state="+g.State, "20 simulated seconds after Stop returned, %d goroutine(s) of the stopped system are still alive: %s", len(live), describeLive(live))
		return
	}
	// the peer must still be able to stop as well (it lost its connections to the stopped node)
	if err := peer.Stop(); err != nil {
		r.Fail("C07/peer-stop-failed", "the peer of a stopped system could not stop: %v; live: %s", err, describeLive(liveOfTag(r, 2)))
		return
	}
	netFaultCounts(r, nw)
}

func liveOfTag(r *R, tag int) []vsimrt.GInfo {
	var out []vsimrt.GInfo
	for _, g := range r.Sim.Live() {
		if g.Tag == tag {
			out = append(out, g)
		}
	}
	return out
}
