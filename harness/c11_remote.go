//go:build vsim

package vsimharness

import (
	"fmt"
	"sync"
	"time"

	"github.com/kercylan98/vivid"
	"vsimrt/simnet"
	vsimrt "vsimrt/simrt"
)

// C11 - remote delivery over a healthy link: exactly once, intact, in order (DESIGN.md 3, C11).

func init() {
	register(&Workload{Prop: "C11", Variant: "healthy-link", Horizon: 30 * time.Minute, MaxSteps: 3000000, MaxG: 8192, Spin: 40000, PCTLen: 20000, Body: c11Healthy})
}

func c11Healthy(r *R) {
	nw := simnet.New()
	nw.ChunkMode = r.Choose(5)
	switch r.Choose(4) {
	case 1:
		nw.MinLatency = time.Millisecond
	case 2:
		nw.MinLatency, nw.Jitter = 200*time.Microsecond, 3*time.Millisecond
	case 3:
		nw.MinLatency, nw.Jitter = 20*time.Millisecond, 50*time.Millisecond
	}
	nNodes := 2 + r.Choose(2)
	codec := r.Chance(40)
	var nodes []*RNode
	for i := 0; i < nNodes; i++ {
		n := StartRNode(r, nw, i+1, fmt.Sprintf("127.0.0.1:%d", 9001+i), RNodeOpt{Codec: codec, ReconnectLimit: -1})
		if r.Failed() {
			return
		}
		n.Sink("sink")
		nodes = append(nodes, n)
	}
	vsimrt.Settle()
	type flow struct {
		from, to int
		name     string
		burst    int
		sizes    []int
		mode     int // 0 tell from outside, 1 tell from an actor, 2 ask from outside (reply must come back), 3 UMsg through the user codec
		pauseAt  int // the sender idles for `pause` before message #pauseAt (-1: never): an established connection must survive being idle
		pause    time.Duration
	}
	var flows []*flow
	nFlows := 1 + r.Choose(4)
	sizeClasses := []int{0, 1, 7, 64, 300, 1500, 4096, 20000, 65536}
	var fdesc []string
	for i := 0; i < nFlows; i++ {
		f := &flow{from: r.Choose(nNodes), name: fmt.Sprintf("f%d", i), mode: r.Choose(4), pauseAt: -1}
		f.to = (f.from + 1 + r.Choose(nNodes-1)) % nNodes
		f.burst = 1 + r.Choose(40)
		if r.Chance(15) {
			f.burst = 100 + r.Choose(101)
		}
		if f.mode == 3 && !codec {
			f.mode = 0
		}
		maxClass := 7
		if f.burst > 60 {
			maxClass = 5
		}
		for k := 0; k < f.burst; k++ {
			sz := sizeClasses[r.Choose(maxClass)]
			if r.Tier == "thorough" && r.Chance(1) && f.burst < 20 {
				sz = 4*1024*1024 - 512 - r.Choose(4096) // the frame (payload + about 150 bytes of envelope) stays just under the limit
			} else if r.Chance(2) {
				sz = sizeClasses[7+r.Choose(2)]
			}
			f.sizes = append(f.sizes, sz)
		}
		if r.Chance(25) && f.burst > 1 && (f.mode == 0 || f.mode == 3) {
			f.pauseAt = 1 + r.Choose(f.burst-1)
			f.pause = []time.Duration{3 * time.Second, 12 * time.Second, 45 * time.Second}[r.Choose(3)]
		}
		flows = append(flows, f)
		fdesc = append(fdesc, fmt.Sprintf("%s: node%d->node%d burst=%d mode=%s idle=%v before #%d", f.name, f.from+1, f.to+1, f.burst, []string{"tell(outside)", "tell(actor)", "ask", "codec"}[f.mode], f.pause, f.pauseAt))
	}
	r.Sample(map[string]any{"nodes": nNodes, "chunk_mode": []string{"all", "one-byte", "uniform", "frame", "mixed"}[nw.ChunkMode], "latency": nw.MinLatency.String(), "jitter": nw.Jitter.String(), "user_codec": codec, "flows": fdesc})
	var wg sync.WaitGroup
	var amu sync.Mutex
	askResults := map[string][]int64{}
	askErrs := map[string][]string{}
	for _, f := range flows {
		f := f
		src, dst := nodes[f.from], nodes[f.to]
		var sinkRef vivid.ActorRef
		src.Do(func() { sinkRef, _ = src.Sys.CreateRef(dst.Addr, "/sink") })
		switch f.mode {
		case 0, 3:
			wg.Add(1)
			vsimrt.Go("c11.sender", func() {
				defer wg.Done()
				src.Do(func() {
					for k := 0; k < f.burst; k++ {
						if k == f.pauseAt {
							vsimrt.Sleep(f.pause)
							r.Count("idle-period-on-established-connection")
						}
						if f.mode == 3 {
							src.Sys.Tell(sinkRef, &UMsg{From: f.name, Seq: int64(k), Pad: padFor(int64(k), f.sizes[k])})
						} else {
							src.Sys.Tell(sinkRef, newRMsg(f.name, int64(k), f.sizes[k], 0))
						}
					}
				})
			})
		case 1:
			src.Do(func() {
				_, err := src.Sys.ActorOf(vivid.ActorFN(func(ctx vivid.ActorContext) {
					switch ctx.Message().(type) {
					case *vivid.OnLaunch:
						for k := 0; k < f.burst; k++ {
							ctx.Tell(sinkRef, newRMsg(f.name, int64(k), f.sizes[k], 0))
						}
					}
				}), vivid.WithActorName("sender-"+f.name))
				if err != nil {
					r.Fail("C11/harness", "sender actor: %v", err)
				}
			})
		case 2:
			wg.Add(1)
			vsimrt.Go("c11.asker", func() {
				defer wg.Done()
				src.Do(func() {
					var futs []vivid.Future[vivid.Message]
					for k := 0; k < f.burst; k++ {
						futs = append(futs, src.Sys.Ask(sinkRef, newRMsg(f.name, int64(k), f.sizes[k], 1), time.Minute))
					}
					for k, fu := range futs {
						r.Waiting(fmt.Sprintf("reply to ask %d of flow %s", k, f.name))
						m, err := fu.Result()
						vsimrt.Yield()
						amu.Lock()
						if err != nil {
							askErrs[f.name] = append(askErrs[f.name], fmt.Sprintf("#%d: %v", k, err))
						} else if rep, ok := m.(*RRep); ok {
							askResults[f.name] = append(askResults[f.name], rep.Seq)
						} else {
							askErrs[f.name] = append(askErrs[f.name], fmt.Sprintf("#%d: unexpected reply %T", k, m))
						}
						amu.Unlock()
					}
				})
			})
		}
	}
	r.Waiting("senders")
	wg.Wait()
	vsimrt.Yield()
	vsimrt.SettleFor(2 * time.Second)
	if r.Failed() {
		return
	}
	netFaultCounts(r, nw)
	for _, n := range nodes {
		n.mu.Lock()
		cf := n.connFailed
		n.mu.Unlock()
		if cf > 0 {
			r.Count("connection-failed-events")
		}
	}
	chunk := []string{"all", "one-byte", "uniform", "frame", "mixed"}[nw.ChunkMode]
	for _, n := range nodes {
		n.mu.Lock()
		df := n.decodeFailed
		n.mu.Unlock()
		if df > 0 {
			r.Fail("C11/decode-failed chunk="+chunk, "node %s published %d RemotingMessageDecodeFailedEvent(s) over a healthy link (read chunking %s)", n.Addr, df, chunk)
			return
		}
	}
	for _, f := range flows {
		dst := nodes[f.to]
		var got []RecvRec
		for _, rec := range dst.Recv("sink") {
			if rec.From == f.name {
				got = append(got, rec)
			}
		}
		var seqs []int64
		for _, g := range got {
			seqs = append(seqs, g.Seq)
		}
		for i, g := range got {
			if !g.OK {
				r.Fail("C11/corrupted chunk="+chunk, "flow %s: message #%d arrived with a damaged payload", f.name, g.Seq)
				return
			}
			if int64(i) != g.Seq {
				cls := "C11/reordered"
				if i > 0 && g.Seq <= got[i-1].Seq {
					cls = "C11/duplicated-or-reordered"
				} else if g.Seq > int64(i) {
					cls = "C11/missing"
				}
				r.Fail(cls+" chunk="+chunk, "flow %s (burst %d, read chunking %s, latency %v+%v): position %d holds message #%d; received %d of %d: %v", f.name, f.burst, chunk, nw.MinLatency, nw.Jitter, i, g.Seq, len(got), f.burst, head64(seqs, 30))
				return
			}
		}
		if len(got) != f.burst {
			r.Fail("C11/missing chunk="+chunk, "flow %s (burst %d, read chunking %s, latency %v+%v): only %d of %d messages arrived: %v", f.name, f.burst, chunk, nw.MinLatency, nw.Jitter, len(got), f.burst, head64(seqs, 30))
			return
		}
		// the sender reference designates the original sender
		if f.mode == 1 {
			want := fmt.Sprintf("/sender-%s", f.name)
			for _, g := range got {
				if g.Sender == "" || !containsStr(g.Sender, want) || !containsStr(g.Sender, nodes[f.from].Addr) {
					r.Fail("C11/wrong-sender", "flow %s: the receiver saw sender %q, expected the actor %s on %s", f.name, g.Sender, want, nodes[f.from].Addr)
					return
				}
			}
		}
		if f.mode == 2 {
			amu.Lock()
			errs, reps := askErrs[f.name], askResults[f.name]
			amu.Unlock()
			if len(errs) > 0 {
				r.Fail("C11/ask-failed chunk="+chunk, "flow %s: %d of %d Asks over a healthy link failed: %v", f.name, len(errs), f.burst, errs[:min(len(errs), 4)])
				return
			}
			for i, s := range reps {
				if s != int64(i) {
					r.Fail("C11/reply-mismatch", "flow %s: ask #%d got the reply of #%d", f.name, i, s)
					return
				}
			}
		}
		r.CountN("messages-delivered", len(got))
	}
	for _, n := range nodes {
		if err := n.Stop(); err != nil {
			r.Note("stop of %s: %v", n.Addr, err)
		}
	}
}

func head64(s []int64, n int) []int64 {
	if len(s) > n {
		return s[:n]
	}
	return s
}

func containsStr(s, sub string) bool {
	return len(sub) == 0 || (len(s) >= len(sub) && indexOf(s, sub) >= 0)
}

func indexOf(s, sub string) int {
	for i := 0; i+len(sub) <= len(s); i++ {
		if s[i:i+len(sub)] == sub {
			return i
		}
	}
	return -1
}
