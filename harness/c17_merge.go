//go:build vsim

package vsimharness

import (
	"fmt"
	"sort"
	"strings"
	"sync"
	"time"

	"github.com/kercylan98/vivid/internal/cluster"
)

// C17 - cluster view merge is order-insensitive and never regresses a member, on the views that are actually
// reachable: the cluster simulations of C18 produce them (joins, restarts = generation bumps, suspect marking,
// removals, partitions, all concurrent-version strategies, clock skew), a probe on
// (*ClusterView).MergeFromWithOptions checks every single merge, and the views that were actually gossiped are
// re-merged in every order afterwards (DESIGN.md 3, C17).

func init() {
	register(&Workload{Prop: "C17", Variant: "fault-free", Horizon: 4 * time.Hour, MaxSteps: 6000000, MaxG: 16384, Spin: 200000, PCTLen: 100000, Weight: 1, Body: func(r *R) { c18Run(r, false) }})
	register(&Workload{Prop: "C17", Variant: "faults", Horizon: 4 * time.Hour, MaxSteps: 6000000, MaxG: 16384, Spin: 200000, PCTLen: 100000, Weight: 3, Body: func(r *R) { c18Run(r, true) }})
}

type c17State struct {
	mu      sync.Mutex
	r       *R
	before  map[*cluster.ClusterView]*cluster.ClusterView
	pool    []*cluster.ClusterView
	poolKey map[string]bool
	opts    []cluster.MergeOptions
	merges  int
}

var c17cur *c17State

func memberKey(m *cluster.NodeState) [2]uint64 {
	return [2]uint64{uint64(m.Generation), m.LogicalClock}
}

func viewSig(v *cluster.ClusterView) string {
	var parts []string
	for id, m := range v.Members {
		parts = append(parts, fmt.Sprintf("%s:g%d:c%d", id, m.Generation, m.LogicalClock))
	}
	sort.Strings(parts)
	return strings.Join(parts, ",") + "|vv=" + v.VersionVector.String()
}

func c17Install(r *R) {
	if r.Prop != "C17" {
		c17cur = nil
		return
	}
	st := &c17State{r: r, before: map[*cluster.ClusterView]*cluster.ClusterView{}, poolKey: map[string]bool{}}
	c17cur = st
	r.Sim.OnProbe("cluster.MergeFromWithOptions", func(phase int, args []any) {
		if len(args) < 4 {
			return
		}
		v, _ := args[0].(*cluster.ClusterView)
		other, _ := args[1].(*cluster.ClusterView)
		opts, _ := args[2].(cluster.MergeOptions)
		changedPtr, _ := args[3].(*bool)
		if v == nil {
			return
		}
		st.mu.Lock()
		defer st.mu.Unlock()
		if phase == 0 {
			st.before[v] = v.Snapshot()
			if other != nil && len(other.Members) > 0 {
				sig := viewSig(other)
				if !st.poolKey[sig] && len(st.pool) < 400 {
					st.poolKey[sig] = true
					st.pool = append(st.pool, other.Snapshot())
					st.opts = append(st.opts, opts)
				}
			}
			return
		}
		before := st.before[v]
		delete(st.before, v)
		if before == nil || other == nil || len(other.Members) == 0 {
			return
		}
		st.merges++
		changed := changedPtr != nil && *changedPtr
		actual := false
		for id, bm := range before.Members {
			am, ok := v.Members[id]
			if !ok {
				r.Fail("C17/merge-removed-member", "a merge removed member %s; before %s, other %s, after %s", id, viewSig(before), viewSig(other), viewSig(v))
				return
			}
			bk, ak := memberKey(bm), memberKey(am)
			if ak[0] < bk[0] || (ak[0] == bk[0] && bm.LogicalClock != 0 && am.LogicalClock != 0 && ak[1] < bk[1]) {
				r.Fail("C17/merge-regressed-member", "a merge replaced member %s (generation %d, logical clock %d) by an older incarnation (generation %d, logical clock %d); other view: %s", id, bm.Generation, bm.LogicalClock, am.Generation, am.LogicalClock, viewSig(other))
				return
			}
			if ak != bk || am.Status != bm.Status {
				actual = true
			}
		}
		for id, om := range other.Members {
			am, ok := v.Members[id]
			if !ok {
				r.Fail("C17/merge-dropped-incoming-member", "after the merge member %s of the incoming view is absent", id)
				return
			}
			if _, had := before.Members[id]; !had {
				actual = true
			}
			// the result holds the newest incarnation of the two inputs
			ok2 := memberKey(am)
			k := memberKey(om)
			if ok2[0] < k[0] || (ok2[0] == k[0] && om.LogicalClock != 0 && am.LogicalClock != 0 && ok2[1] < k[1]) {
				r.Fail("C17/merge-kept-older-incarnation", "member %s: the incoming view has generation %d / clock %d but the merged view kept generation %d / clock %d", id, om.Generation, om.LogicalClock, am.Generation, am.LogicalClock)
				return
			}
		}
		if v.Epoch < before.Epoch {
			r.Fail("C17/epoch-decreased", "a merge lowered the epoch from %d to %d", before.Epoch, v.Epoch)
			return
		}
		for id := range v.Members {
			if b, a := before.VersionVector.Get(id), v.VersionVector.Get(id); a < b {
				r.Fail("C17/version-vector-entry-decreased", "a merge lowered the version-vector entry of member %s from %d to %d", id, b, a)
				return
			}
		}
		if !v.VersionVector.Equal(before.VersionVector) {
			actual = true
		}
		if actual && !changed {
			r.Fail("C17/changed-flag-false-on-change", "a merge changed the membership or the version vector but returned changed=false; before %s, other %s, after %s", viewSig(before), viewSig(other), viewSig(v))
			return
		}
	})
}

// c17Post re-merges the views that were actually gossiped, in every order.
func c17Post(r *R) {
	st := c17cur
	if st == nil || r.Prop != "C17" {
		return
	}
	st.mu.Lock()
	pool := st.pool
	opts := st.opts
	merges := st.merges
	st.mu.Unlock()
	r.CountN("merges-monitored", merges)
	r.CountN("distinct-gossiped-views", len(pool))
	if len(pool) < 2 {
		return
	}
	c17cur = nil // the re-merges below must not feed the monitor
	mergeAll := func(order []int, o cluster.MergeOptions) *cluster.ClusterView {
		acc := pool[order[0]].Snapshot()
		for _, i := range order[1:] {
			acc.MergeFromWithOptions(pool[i].Snapshot(), o)
		}
		return acc
	}
	memberSig := func(v *cluster.ClusterView) string { return viewSig(v) }
	checked := 0
	for t := 0; t < 60; t++ {
		i, j, k := r.Choose(len(pool)), r.Choose(len(pool)), r.Choose(len(pool))
		o := opts[i]
		a, b := mergeAll([]int{i, j}, o), mergeAll([]int{j, i}, o)
		if memberSig(a) != memberSig(b) {
			r.Fail("C17/merge-not-commutative", "merging two gossiped views in the two orders gives different results: A+B = %s, B+A = %s; A = %s, B = %s", memberSig(a), memberSig(b), viewSig(pool[i]), viewSig(pool[j]))
			return
		}
		self := pool[i].Snapshot()
		if self.MergeFromWithOptions(pool[i].Snapshot(), o); memberSig(self) != memberSig(pool[i]) {
			r.Fail("C17/merge-not-idempotent", "merging a view into itself changed it: %s -> %s", viewSig(pool[i]), memberSig(self))
			return
		}
		perms := [][]int{{i, j, k}, {i, k, j}, {j, i, k}, {j, k, i}, {k, i, j}, {k, j, i}}
		first := memberSig(mergeAll(perms[0], o))
		for _, p := range perms[1:] {
			if s := memberSig(mergeAll(p, o)); s != first {
				r.Fail("C17/merge-not-associative", "merging three gossiped views in order %v gives %s, in order %v it gives %s", perms[0], first, p, s)
				return
			}
		}
		checked++
	}
	r.CountN("order-permutations-checked", checked)
	// Within one generation the logical clock decides which state is the newer one, whatever the wall-clock stamps say
	// (the stamping node's clock may lag). No history of this code base advances the logical clock without the
	// generation, so such a pair is derived here from a gossiped view: one member's state is advanced by one logical
	// tick and stamped earlier than, at, or later than the state it succeeds (added after seeded wave 10).
	derived := 0
	for t := 0; t < 40; t++ {
		i, j := r.Choose(len(pool)), r.Choose(len(pool))
		o := opts[i]
		var ids []string
		for id, m := range pool[i].Members {
			if m != nil && m.LogicalClock != 0 {
				ids = append(ids, id)
			}
		}
		if len(ids) == 0 {
			continue
		}
		sort.Strings(ids)
		id := ids[r.Choose(len(ids))]
		adv := pool[i].Snapshot()
		m := adv.Members[id]
		m.LogicalClock++
		stamp := []string{"equal", "earlier", "later"}[r.Choose(3)]
		d := int64(1+r.Choose(5000)) * int64(time.Millisecond)
		switch stamp {
		case "earlier":
			m.Timestamp -= d
		case "later":
			m.Timestamp += d
		}
		want := memberKey(m)
		if other := pool[j].Members[id]; other != nil && (uint64(other.Generation) > want[0] || (uint64(other.Generation) == want[0] && other.LogicalClock > want[1])) {
			want = memberKey(other)
		}
		x := pool[i].Snapshot()
		x.MergeFromWithOptions(adv.Snapshot(), o)
		if got := memberKey(x.Members[id]); got != memberKey(m) {
			r.Fail("C17/merge-kept-older-logical-clock stamp="+stamp, "member %s is held at (generation %d, logical clock %d); a view holding it at the same generation and logical clock %d (time stamp %s) is merged in, and the result holds (generation %d, logical clock %d): the newer state was not adopted", id, m.Generation, m.LogicalClock-1, m.LogicalClock, stamp, got[0], got[1])
			return
		}
		y := adv.Snapshot()
		y.MergeFromWithOptions(pool[i].Snapshot(), o)
		if got := memberKey(y.Members[id]); got != memberKey(m) {
			r.Fail("C17/merge-replaced-by-older-logical-clock stamp="+stamp, "member %s is held at (generation %d, logical clock %d); merging a view that holds it at logical clock %d (time stamp of the newer state: %s) leaves (generation %d, logical clock %d)", id, m.Generation, m.LogicalClock, m.LogicalClock-1, stamp, got[0], got[1])
			return
		}
		views := []*cluster.ClusterView{pool[i], adv, pool[j]}
		for _, p := range [][]int{{0, 1, 2}, {0, 2, 1}, {1, 0, 2}, {1, 2, 0}, {2, 0, 1}, {2, 1, 0}} {
			acc := views[p[0]].Snapshot()
			acc.MergeFromWithOptions(views[p[1]].Snapshot(), o)
			acc.MergeFromWithOptions(views[p[2]].Snapshot(), o)
			if got := memberKey(acc.Members[id]); got != want {
				r.Fail("C17/merge-order-sensitive-within-generation stamp="+stamp, "views V, V' (= V with member %s advanced by one logical tick, time stamp %s) and W merged in order %v leave the member at (generation %d, logical clock %d); the newest of the three is (generation %d, logical clock %d)", id, stamp, p, got[0], got[1], want[0], want[1])
				return
			}
		}
		derived++
	}
	r.CountN("derived-same-generation-pairs-checked", derived)
}
