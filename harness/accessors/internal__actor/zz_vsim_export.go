//go:build vsim

package actor

import (
	"sort"
	"strings"

	"github.com/kercylan98/vivid"
	"github.com/kercylan98/vivid/internal/future"
)

// Accessors used by the simulation harness only (DESIGN.md 2.8). They read unexported state by name: if an
// edit renames a field the build of the check fails and it exits 2 (could not decide), never VIOLATION.
// They must only be called while no goroutine of the system is running (at quiescence).

// VsimEventStreamTables returns type -> subscriber paths and subscriber path -> types.
func VsimEventStreamTables(s *System) (byType map[string][]string, bySubscriber map[string][]string) {
	es := s.eventStream.(*eventStream)
	es.mu.RLock()
	defer es.mu.RUnlock()
	byType, bySubscriber = map[string][]string{}, map[string][]string{}
	for t, subs := range es.subscribers {
		for p := range subs {
			byType[t.String()] = append(byType[t.String()], p)
		}
		sort.Strings(byType[t.String()])
	}
	for p, ts := range es.subscriberTypes {
		for t := range ts {
			bySubscriber[p] = append(bySubscriber[p], t.String())
		}
		sort.Strings(bySubscriber[p])
	}
	return
}

// VsimFutureRegistrations counts future entries in the path registry and in futureAgents.
func VsimFutureRegistrations(s *System) (inRegistry []string, inAgents []string) {
	s.actorContexts.RawRange(func(k, v any) bool {
		if _, ok := v.(*future.Future[vivid.Message]); ok {
			inRegistry = append(inRegistry, k.(string))
		}
		return true
	})
	s.futureLock.Lock()
	defer s.futureLock.Unlock()
	for agent, m := range s.futureAgents {
		for p := range m {
			inAgents = append(inAgents, agent+" -> "+p)
		}
		if len(m) == 0 {
			inAgents = append(inAgents, agent+" -> (empty inner map)")
		}
	}
	sort.Strings(inRegistry)
	sort.Strings(inAgents)
	return
}

// VsimContexts lists the registered actor contexts: path -> "state paused zombie children..."
type VsimCtxInfo struct {
	Path     string
	State    int32
	Paused   bool
	Zombie   bool
	Children []string
	Parent   string
}

func VsimContexts(s *System) []VsimCtxInfo {
	// collect first, in a deterministic order: IsPaused() below is a scheduling point of the simulator and must not
	// happen inside the (randomly ordered) iteration of the registry
	var ctxs []*Context
	if s.Context != nil {
		ctxs = append(ctxs, s.Context)
	}
	s.actorContexts.RawRange(func(k, v any) bool {
		if c, ok := v.(*Context); ok {
			ctxs = append(ctxs, c)
		}
		return true
	})
	sort.Slice(ctxs, func(i, j int) bool { return ctxs[i].ref.GetPath() < ctxs[j].ref.GetPath() })
	var out []VsimCtxInfo
	for _, c := range ctxs {
		ci := VsimCtxInfo{Path: c.ref.GetPath(), State: c.state, Paused: c.mailbox.IsPaused(), Zombie: c.zombie}
		if c.parent != nil {
			ci.Parent = c.parent.GetPath()
		}
		for p := range c.children {
			ci.Children = append(ci.Children, p)
		}
		sort.Strings(ci.Children)
		out = append(out, ci)
	}
	return out
}

// VsimSystem unwraps the public interface.
func VsimSystem(sys vivid.ActorSystem) *System { return sys.(*System) }

func vsimIsFuturePath(p string) bool { return strings.Contains(p, agentFutureMarker) }
