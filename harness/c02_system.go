//go:build vsim

package vsimharness

import (
	"fmt"
	"sync"
	"time"

	"github.com/kercylan98/vivid"
	vsimrt "vsimrt/simrt"
)

// C02/W2-W4 - ordering seen by a behaviour on a real ActorSystem (DESIGN.md 3, C02).

func init() {
	register(&Workload{Prop: "C02", Variant: "order", Horizon: 10 * time.Minute, MaxSteps: 400000, MaxG: 2048, Spin: 20000, PCTLen: 2000, Body: c02Order})
	register(&Workload{Prop: "C02", Variant: "killorder", Horizon: 10 * time.Minute, MaxSteps: 200000, MaxG: 2048, Spin: 8000, PCTLen: 1500, Body: c02KillOrder})
	register(&Workload{Prop: "C02", Variant: "killrace", Horizon: 10 * time.Minute, MaxSteps: 300000, MaxG: 2048, Spin: 8000, PCTLen: 2500, Body: c02KillRace})
	register(&Workload{Prop: "C02", Variant: "stash", Horizon: 10 * time.Minute, MaxSteps: 200000, MaxG: 2048, Spin: 8000, PCTLen: 1500, Body: c02Stash})
}

// W2: per-sender FIFO across ring growth.
func c02Order(r *R) {
	w := newWorld(r, WorldOpt{NoObs: true})
	if r.Failed() {
		return
	}
	nSenders := 1 + r.Choose(3)
	burst := 1 + r.Choose(40)
	if r.Tier == "thorough" && r.Chance(50) {
		burst = 250 + r.Choose(351) // actor rings start at 256: 256 and 512 are growth boundaries
	} else if r.Chance(8) {
		burst = 255 + r.Choose(6)
	}
	gate := NewGate()
	hold := r.Chance(70) // hold the handler so that the whole burst queues up (ring growth with a full queue)
	var mu sync.Mutex
	got := map[string][]int{}
	target, err := w.Spawn(&Spec{Name: "t", Plain: true})
	if err != nil {
		r.Fail("C02/harness", "spawn: %v", err)
		return
	}
	r.Sample(map[string]any{"senders": nSenders, "burst_per_sender": burst, "handler_held": hold})
	if hold {
		w.Tell(target, w.NewCmd("gate", 0, func(ctx vivid.ActorContext, p *Probe) { gate.Wait() }))
	}
	var wg sync.WaitGroup
	for s := 0; s < nSenders; s++ {
		name := fmt.Sprintf("s%d", s)
		ref := w.RefBy(provenances[r.Choose(len(provenances))], target, "/t")
		wg.Add(1)
		vsimrt.Go("c02.sender", func() {
			defer wg.Done()
			for k := 0; k < burst; k++ {
				k := k
				w.Tell(ref, &Cmd{ID: -1, Sender: name, Seq: k, Do: func(ctx vivid.ActorContext, p *Probe) {
					mu.Lock()
					got[name] = append(got[name], k)
					mu.Unlock()
				}})
			}
		})
	}
	r.Waiting("senders")
	wg.Wait()
	vsimrt.Yield()
	if hold {
		vsimrt.Settle()
		gate.Open()
	}
	vsimrt.Settle()
	mu.Lock()
	defer mu.Unlock()
	for s := 0; s < nSenders; s++ {
		name := fmt.Sprintf("s%d", s)
		g := got[name]
		for i, v := range g {
			if v != i {
				cls := "C02/order-violated"
				if i > 0 && v <= g[i-1] {
					cls = "C02/order-violated-or-duplicate"
				}
				r.Fail(cls, "sender %s: the behaviour saw message #%d at position %d (burst %d per sender, %d senders, handler held: %v); received prefix: %v", name, v, i, burst, nSenders, hold, g[:min(i+3, len(g))])
				return
			}
		}
		if len(g) != burst {
			r.Fail("C02/messages-missing", "sender %s: %d of %d messages reached the behaviour", name, len(g), burst)
			return
		}
	}
	if burst >= 256 && hold {
		r.Count("ring-grew-with-full-queue")
	}
}

// W3: an immediate kill overtakes queued user messages, a poison kill is processed after them.
func c02KillOrder(r *R) {
	w := newWorld(r, WorldOpt{})
	if r.Failed() {
		return
	}
	n := 1 + r.Choose(12)
	poison := r.Chance(50)
	held := r.Chance(75)
	gate := NewGate()
	target, err := w.Spawn(&Spec{Name: "t", Plain: true})
	if err != nil {
		r.Fail("C02/harness", "spawn: %v", err)
		return
	}
	vsimrt.Settle()
	r.Sample(map[string]any{"queued": n, "poison": poison, "handler_held": held})
	ref := w.RefBy(provenances[r.Choose(len(provenances))], target, "/t")
	if held {
		w.Tell(ref, w.NewCmd("gate", 0, func(ctx vivid.ActorContext, p *Probe) { gate.Wait() }))
		vsimrt.Settle() // the handler is now parked on the gate
	}
	var ids []int
	for k := 0; k < n; k++ {
		c := w.NewCmd("s", k, nil)
		ids = append(ids, c.ID)
		w.Tell(ref, c)
	}
	w.Sys.Kill(ref, poison, "scripted")
	after := w.NewCmd("s", n, nil) // sent after Kill returned
	w.Tell(ref, after)
	if held {
		gate.Open()
	}
	vsimrt.SettleFor(100 * time.Millisecond)
	evs := filter(w.Events(), func(e Event) bool { return e.Path == "/t" && (e.Kind == "Cmd" || e.Kind == "OnKill") })
	killAt := -1
	for i, e := range evs {
		if e.Kind == "OnKill" {
			killAt = i
			break
		}
	}
	if killAt < 0 {
		r.Fail("C02/kill-not-processed", "the target never saw OnKill; trace: %s", fmtEvents(evs, 20))
		return
	}
	pos := map[int]int{}
	for i, e := range evs {
		if e.Kind == "Cmd" {
			pos[e.ID] = i
		}
	}
	if _, ok := pos[after.ID]; ok {
		r.Fail(fmt.Sprintf("C02/message-after-kill-processed poison=%v", poison), "a user message sent after Kill() returned was processed by the behaviour; trace: %s", fmtEvents(evs, 20))
		return
	}
	if poison {
		// every user message enqueued before the poison kill is processed, in order, before OnKill
		last := -1
		for k, id := range ids {
			p, ok := pos[id]
			if !ok || p > killAt {
				r.Fail("C02/poison-kill-overtook-queued-message", "queued message #%d (of %d) was not processed before the poison OnKill; trace: %s", k, n, fmtEvents(evs, 24))
				return
			}
			if p < last {
				r.Fail("C02/order-violated", "queued messages were processed out of order before the poison kill; trace: %s", fmtEvents(evs, 24))
				return
			}
			last = p
		}
	} else if held {
		// all of u1..un were queued while the handler was parked: the system OnKill must overtake every one of them
		for k, id := range ids {
			if _, ok := pos[id]; ok {
				r.Fail("C02/immediate-kill-did-not-overtake", "user message #%d (of %d) queued before the immediate kill was still processed (position %d, OnKill at %d); trace: %s", k, n, pos[id], killAt, fmtEvents(evs, 24))
				return
			}
		}
		r.Count("immediate-kill-overtook-queue")
	}
	for _, e := range evs[killAt+1:] {
		if e.Kind == "Cmd" {
			r.Fail("C02/user-message-after-onkill", "the behaviour processed %s after OnKill", e.String())
			return
		}
	}
}

// W3b: an immediate kill issued while the consumer is running. Kill() has returned - the OnKill is pending in the system
// queue - before the next user message is even sent, so that message must never reach the behaviour, wherever the consumer
// goroutine was between its look at the system queue and its pop from the user queue. Several targets per run: the window
// is two scheduling steps wide.
func c02KillRace(r *R) {
	w := newWorld(r, WorldOpt{})
	if r.Failed() {
		return
	}
	nt := 4 + r.Choose(5)
	type tgt struct {
		path  string
		ref   vivid.ActorRef
		after int
		n     int
	}
	ts := make([]*tgt, nt)
	for i := range ts {
		name := fmt.Sprintf("t%d", i)
		ref, err := w.Spawn(&Spec{Name: name, Plain: true})
		if err != nil {
			r.Fail("C02/harness", "spawn: %v", err)
			return
		}
		ts[i] = &tgt{path: "/" + name, ref: w.RefBy(provenances[r.Choose(len(provenances))], ref, "/"+name), n: 1 + r.Choose(10)}
	}
	vsimrt.Settle()
	r.Sample(map[string]any{"targets": nt})
	// system-message noise from a third party: a helper actor watches and un-watches the targets while they are told and
	// killed (Watch/Unwatch travel as system messages), so that other system envelopes are in the middle of being enqueued
	// when the kill and the message after it arrive
	noise := r.Chance(70)
	if noise {
		helper, err := w.Spawn(&Spec{Name: "noise", Plain: true})
		if err != nil {
			r.Fail("C02/harness", "spawn: %v", err)
			return
		}
		vsimrt.Settle()
		for _, t := range ts {
			tref := w.RefBy("create", nil, t.path)
			for k := 0; k < 3; k++ {
				w.Tell(helper, w.NewCmd("noise", k, func(ctx vivid.ActorContext, p *Probe) {
					ctx.Watch(tref)
					ctx.Unwatch(tref)
				}))
			}
		}
		r.Count("system-message-noise")
	}
	for _, t := range ts {
		for k := 0; k < t.n; k++ {
			w.Tell(t.ref, w.NewCmd("s", k, nil))
		}
		w.Sys.Kill(t.ref, false, "scripted")
		c := w.NewCmd("s", t.n, nil) // sent after Kill returned
		t.after = c.ID
		w.Tell(t.ref, c)
	}
	vsimrt.SettleFor(100 * time.Millisecond)
	for _, t := range ts {
		evs := filter(w.Events(), func(e Event) bool { return e.Path == t.path && (e.Kind == "Cmd" || e.Kind == "OnKill") })
		killAt := -1
		for i, e := range evs {
			if e.Kind == "OnKill" && killAt < 0 {
				killAt = i
			}
			if e.Kind == "Cmd" && e.ID == t.after {
				r.Fail("C02/message-after-kill-processed poison=false", "a user message sent after Kill() returned was processed by the behaviour; trace: %s", fmtEvents(evs, 20))
				return
			}
			if e.Kind == "Cmd" && killAt >= 0 {
				r.Fail("C02/user-message-after-onkill", "the behaviour processed %s after OnKill", e.String())
				return
			}
		}
		if killAt < 0 {
			r.Fail("C02/kill-not-processed", "the target never saw OnKill; trace: %s", fmtEvents(evs, 20))
			return
		}
		if killAt < t.n {
			r.Count("immediate-kill-overtook-queue")
		}
	}
}

// W4: stash order.
func c02Stash(r *R) {
	w := newWorld(r, WorldOpt{NoObs: true})
	if r.Failed() {
		return
	}
	n := 4 + r.Choose(20)
	type step struct {
		stash   bool
		unstash int // -1 none, 0 = Unstash(), k = Unstash(k)
	}
	plan := make([]step, n)
	for i := range plan {
		plan[i].unstash = -1
		switch r.Choose(5) {
		case 0, 1:
			plan[i].stash = true
		case 2:
			plan[i].unstash = r.Choose(5)
		}
	}
	var mu sync.Mutex
	var stashOrder, redelivered []int
	refStash := 0 // reference model of StashCount
	stashedOnce := map[int]bool{}
	bad := ""
	target, err := w.Spawn(&Spec{Name: "t", Plain: true})
	if err != nil {
		r.Fail("C02/harness", "spawn: %v", err)
		return
	}
	r.Sample(map[string]any{"messages": n, "plan(stash/unstash)": fmt.Sprint(plan)})
	for i := 0; i < n; i++ {
		st := plan[i]
		id := i + 1
		w.Tell(target, &Cmd{ID: id, Sender: "s", Seq: i, Do: func(ctx vivid.ActorContext, p *Probe) {
			mu.Lock()
			defer mu.Unlock()
			if stashedOnce[id] {
				redelivered = append(redelivered, id)
				return
			}
			if st.stash {
				stashedOnce[id] = true
				stashOrder = append(stashOrder, id)
				ctx.Stash()
				refStash++
			}
			if st.unstash >= 0 {
				if st.unstash == 0 {
					ctx.Unstash()
					if refStash > 0 {
						refStash--
					}
				} else {
					ctx.Unstash(st.unstash)
					refStash -= min(st.unstash, refStash)
				}
			}
			if c := ctx.StashCount(); c != refStash && bad == "" {
				bad = fmt.Sprintf("after message %d StashCount()=%d, reference model says %d", id, c, refStash)
			}
		}})
	}
	vsimrt.Settle()
	// drain the stash completely
	w.Tell(target, &Cmd{ID: 9999, Sender: "s", Do: func(ctx vivid.ActorContext, p *Probe) { ctx.Unstash(1 << 20) }})
	vsimrt.Settle()
	mu.Lock()
	defer mu.Unlock()
	if bad != "" {
		r.Fail("C02/stash-count", "%s", bad)
		return
	}
	if len(redelivered) != len(stashOrder) {
		r.Fail("C02/stash-lost-or-duplicated", "stashed %v but re-delivered %v", stashOrder, redelivered)
		return
	}
	for i := range stashOrder {
		if stashOrder[i] != redelivered[i] {
			r.Fail("C02/stash-order", "stashed in order %v but re-delivered in order %v", stashOrder, redelivered)
			return
		}
	}
	r.CountN("stashed-messages", len(stashOrder))
}
