//go:build vsim

package vsimharness

import (
	"errors"
	"fmt"
	"sort"
	"strings"
	"sync"
	"time"

	"github.com/kercylan98/vivid"
	"github.com/kercylan98/vivid/internal/actor"
	vsimrt "vsimrt/simrt"
)

// C04 - every Ask completes exactly once, with its own reply, timeout, or death (DESIGN.md 3, C04).

func init() {
	register(&Workload{Prop: "C04", Variant: "ask", Horizon: 30 * time.Minute, MaxSteps: 400000, MaxG: 4096, Spin: 10000, PCTLen: 4000, Race: true, Weight: 3, Body: func(r *R) { c04Ask(r, false) }})
	// the asker dies with several Asks outstanding while some of them are being completed at the same instant
	register(&Workload{Prop: "C04", Variant: "asker-death", Horizon: 30 * time.Minute, MaxSteps: 400000, MaxG: 4096, Spin: 10000, PCTLen: 2500, Race: true, Weight: 1, Body: func(r *R) { c04Ask(r, true) }})
	// the asker terminates by way of a supervised restart: killed while the restart waits for a child, or a failed
	// restart hook (zombie) followed by a kill
	// goroutines stall for simulated time at scheduling points (descheduling, GC pauses): timers - also very short Ask
	// timeouts - fire in the middle of the code that set them up. Only the rules that do not depend on timing apply.
	register(&Workload{Prop: "C04", Variant: "stalled", Horizon: 30 * time.Minute, MaxSteps: 400000, MaxG: 4096, Spin: 10000, PCTLen: 4000, Weight: 1, Stall: 40, Body: func(r *R) { c04AskStalled(r) }})
	register(&Workload{Prop: "C04", Variant: "asker-restart-death", Horizon: 30 * time.Minute, MaxSteps: 400000, MaxG: 4096, Spin: 10000, PCTLen: 2500, Weight: 1, Body: func(r *R) { c04AskMode(r, true, true) }})
}

type c04Req struct {
	ID    int
	Mode  int // 0 reply once, 1 reply twice, 2 reply late, 3 reply with an error, 4 never
	Delay time.Duration
}
type c04Rep struct{ ID, N int }
type c04Late struct {
	To vivid.ActorRef
	ID int
}

var errC04Reply = errors.New("responder says no")
var errC04Closed = errors.New("closed by a third party")

type c04Outcome struct {
	msg  any
	err  error
	at   time.Duration
	kind string // Result or Wait
}

type c04AskT struct {
	idx       int
	req       c04Req
	timeout   time.Duration
	implicit  bool // issued without a timeout: the asking actor's default applies (timeout holds its value for the oracle)
	fromActor int  // -1 = outside goroutine
	askAt     time.Duration
	waiters   int
	closeAt   time.Duration // <0 none
	pipe      int           // 0 none, 1 before, 2 around, 3 after completion
	nFwd      int
	outcomes  []c04Outcome
	fut       vivid.Future[vivid.Message]
	closed    bool
	closedAt  time.Duration
}

func c04Ask(r *R, deathFocus bool) { c04AskMode(r, deathFocus, false) }

// c04Stalled is set for the duration of a run of the variant "stalled" (runs of a worker process are sequential).
var c04Stalled bool

func c04AskStalled(r *R) {
	c04Stalled = true
	defer func() { c04Stalled = false }()
	c04AskMode(r, false, false)
}

func c04AskMode(r *R, deathFocus, viaRestart bool) {
	stalled := c04Stalled
	opt := WorldOpt{}
	zombie := false
	if viaRestart {
		zombie = r.Chance(50)
		opt.MakeStrategy = func(w *World) vivid.SupervisionStrategy {
			return vivid.OneForOneStrategy(w.NewMaker("system", func(n int, ctx vivid.SupervisionContext) vivid.SupervisionDecision {
				return vivid.SupervisionDecisionRestart
			}))
		}
	}
	w := newWorld(r, opt)
	if r.Failed() {
		return
	}
	sysI := actor.VsimSystem(w.Sys)
	var mu sync.Mutex
	nResp := 1 + r.Choose(2)
	nAskers := 1 + r.Choose(2)
	// responders
	respond := func(ctx vivid.ActorContext, p *Probe, m any) {
		switch v := m.(type) {
		case c04Req:
			switch v.Mode {
			case 0:
				ctx.Reply(c04Rep{v.ID, 1})
			case 1:
				ctx.Reply(c04Rep{v.ID, 1})
				ctx.Reply(c04Rep{v.ID, 2})
			case 2:
				_ = ctx.Scheduler().Once(ctx.Ref(), v.Delay, c04Late{To: ctx.Sender(), ID: v.ID})
			case 3:
				ctx.Reply(errC04Reply)
			}
		case c04Late:
			ctx.Tell(v.To, c04Rep{v.ID, 1})
		}
	}
	var respRefs []vivid.ActorRef
	for i := 0; i < nResp; i++ {
		ref, err := w.Spawn(&Spec{Name: fmt.Sprintf("r%d", i), OnOther: respond})
		if err != nil {
			r.Fail("C04/harness", "spawn: %v", err)
			return
		}
		respRefs = append(respRefs, ref)
	}
	// forwarders record the PipeResults they get
	pipeGot := map[string][]*vivid.PipeResult{}
	fwdOther := func(ctx vivid.ActorContext, p *Probe, m any) {
		if pr, ok := m.(*vivid.PipeResult); ok {
			mu.Lock()
			pipeGot[p.Path] = append(pipeGot[p.Path], pr)
			mu.Unlock()
		}
	}
	// every asking actor has a default Ask timeout of its own (it takes precedence over the system's, one second): an Ask
	// that names no timeout is governed by it - shorter than the system's for a0, longer for the others
	ownDefault := func(i int) time.Duration {
		if i == 0 {
			return 300 * time.Millisecond
		}
		return 3 * time.Second
	}
	for i := 0; i < nAskers; i++ {
		spec := &Spec{Name: fmt.Sprintf("a%d", i), Options: []vivid.ActorOption{vivid.WithActorDefaultAskTimeout(ownDefault(i))}}
		if viaRestart && i == 0 {
			// a child that takes a while to die keeps the restart (and a kill arriving meanwhile) waiting
			spec.Children = []*Spec{{Name: "c", OnKill: func(ctx vivid.ActorContext, p *Probe) { vsimrt.Sleep(150 * time.Millisecond) }}}
			if zombie {
				spec.Restarted = func(p *Probe) error { return errors.New("restart hook fails") }
			}
		}
		if _, err := w.Spawn(spec); err != nil {
			r.Fail("C04/harness", "spawn: %v", err)
			return
		}
	}
	timeouts := []time.Duration{time.Millisecond, 50 * time.Millisecond, 200 * time.Millisecond, time.Second, 5 * time.Second, 30 * time.Second}
	if stalled {
		// time-outs shorter than a stall: the timer can fire before Ask has finished setting the request up
		timeouts = []time.Duration{time.Microsecond, 100 * time.Microsecond, time.Millisecond, time.Millisecond, 50 * time.Millisecond, time.Second}
	}
	delays := []time.Duration{time.Millisecond, 50 * time.Millisecond, 200 * time.Millisecond, 900 * time.Millisecond, 2 * time.Second}
	nAsks := 1 + r.Choose(12)
	var asks []*c04AskT
	var adesc []string
	for i := 0; i < nAsks; i++ {
		a := &c04AskT{idx: i, timeout: timeouts[r.Choose(len(timeouts))], fromActor: r.Choose(nAskers+1) - 1, waiters: 1 + r.Choose(3), closeAt: -1, pipe: r.Choose(4)}
		a.req = c04Req{ID: 1000 + i, Mode: r.Choose(5), Delay: delays[r.Choose(len(delays))]}
		if r.Chance(15) {
			a.closeAt = delays[r.Choose(len(delays))]
		}
		if a.pipe > 0 {
			a.nFwd = 1 + r.Choose(2)
		}
		if a.fromActor >= 0 && !stalled && r.Chance(30) {
			a.implicit = true
			a.timeout = ownDefault(a.fromActor)
			r.Count("ask-without-a-timeout-of-its-own (the asking actor's default applies)")
		}
		asks = append(asks, a)
		adesc = append(adesc, fmt.Sprintf("ask%d mode=%s delay=%v timeout=%v from=%d waiters=%d close=%v pipe=%s/%d", i,
			[]string{"once", "twice", "late", "error", "never"}[a.req.Mode], a.req.Delay, a.timeout, a.fromActor, a.waiters, a.closeAt, []string{"-", "before", "around", "after"}[a.pipe], a.nFwd))
	}
	killAsker := -1
	killAt := time.Duration(0)
	if r.Chance(30) {
		killAsker = r.Choose(nAskers)
		killAt = delays[r.Choose(len(delays))]
	}
	if deathFocus {
		// every Ask comes from one actor; most replies are due exactly when it is killed
		killAsker = 0
		killAt = delays[r.Choose(len(delays))]
		for _, a := range asks {
			a.fromActor = 0
			a.closeAt = -1
			if r.Chance(60) {
				a.req.Mode, a.req.Delay = 2, killAt
			} else if r.Chance(50) {
				a.req.Mode = 4
			}
			if a.timeout <= killAt || (viaRestart && a.timeout <= killAt+time.Second) {
				a.timeout, a.implicit = 30*time.Second, false
			}
		}
	}
	r.Sample(map[string]any{"asks": adesc, "kill_asker": killAsker, "kill_at": killAt.String()})
	var fwdRefs = map[int]vivid.ActorRefs{}
	for _, a := range asks {
		for k := 0; k < a.nFwd; k++ {
			ref, err := w.Spawn(&Spec{Name: fmt.Sprintf("fw%d_%d", a.idx, k), OnOther: fwdOther})
			if err != nil {
				r.Fail("C04/harness", "spawn: %v", err)
				return
			}
			fwdRefs[a.idx] = append(fwdRefs[a.idx], ref)
		}
	}
	vsimrt.Settle()
	var wg sync.WaitGroup
	startWaiters := func(a *c04AskT, f vivid.Future[vivid.Message]) {
		mu.Lock()
		a.fut = f
		mu.Unlock()
		if a.pipe == 1 {
			_ = f.PipeTo(fwdRefs[a.idx])
		}
		for k := 0; k < a.waiters; k++ {
			k := k
			wg.Add(1)
			vsimrt.Go("c04.waiter", func() {
				defer wg.Done()
				var o c04Outcome
				if k%2 == 0 {
					o.kind = "Result"
					o.msg, o.err = f.Result()
				} else {
					o.kind = "Wait"
					o.err = f.Wait()
				}
				vsimrt.Yield()
				o.at = w.now()
				mu.Lock()
				a.outcomes = append(a.outcomes, o)
				mu.Unlock()
			})
		}
		if a.pipe == 2 {
			wg.Add(1)
			vsimrt.Go("c04.piper", func() {
				defer wg.Done()
				vsimrt.Sleep(a.req.Delay)
				_ = f.PipeTo(fwdRefs[a.idx])
			})
		}
		if a.closeAt >= 0 {
			wg.Add(1)
			vsimrt.Go("c04.closer", func() {
				defer wg.Done()
				vsimrt.Sleep(a.closeAt)
				mu.Lock()
				a.closed = true
				a.closedAt = w.now()
				mu.Unlock()
				f.Close(errC04Closed)
			})
		}
	}
	for _, a := range asks {
		a := a
		target := respRefs[r.Choose(nResp)]
		if a.fromActor < 0 {
			wg.Add(1)
			vsimrt.Go("c04.outside-asker", func() {
				defer wg.Done()
				mu.Lock()
				a.askAt = w.now()
				mu.Unlock()
				f := w.Sys.Ask(target, a.req, a.timeout)
				startWaiters(a, f)
			})
		} else {
			if a.implicit {
				a.timeout = ownDefault(a.fromActor) // the asker may have been re-assigned since the plan was drawn
			}
			w.Tell(w.RefBy("create", nil, fmt.Sprintf("/a%d", a.fromActor)), w.NewCmd("ask", a.idx, func(ctx vivid.ActorContext, p *Probe) {
				mu.Lock()
				a.askAt = w.now()
				mu.Unlock()
				var f vivid.Future[vivid.Message]
				if a.implicit {
					f = ctx.Ask(target, a.req)
				} else {
					f = ctx.Ask(target, a.req, a.timeout)
				}
				startWaiters(a, f)
			}))
		}
	}
	killedAt := time.Duration(-1)
	if killAsker >= 0 {
		vsimrt.Sleep(killAt)
		if viaRestart {
			// the asker fails; its supervisor restarts it; the kill below arrives while the restart waits for the child
			// (or, with a failing restart hook, after the asker became a zombie)
			w.Tell(w.RefBy("create", nil, "/a0"), w.NewCmd("fail", 0, func(ctx vivid.ActorContext, p *Probe) { panic("asker fails") }))
			if zombie {
				vsimrt.Sleep(400 * time.Millisecond)
				r.Count("asker-zombie-then-killed")
			} else {
				vsimrt.Sleep(time.Duration(r.Choose(3)) * 50 * time.Millisecond)
				r.Count("asker-killed-during-restart")
			}
		}
		mu.Lock()
		killedAt = w.now()
		mu.Unlock()
		w.Sys.Kill(w.RefBy("create", nil, fmt.Sprintf("/a%d", killAsker)), false, "scripted")
		r.Count("asker-killed")
		if deathFocus && !viaRestart && r.Chance(60) {
			// a namesake takes the dead asker's place and asks in its turn while replies to its predecessor's requests are
			// still on their way: such a reply belongs to nobody any more and must not complete a request of the namesake
			vsimrt.SettleFor(20 * time.Millisecond)
			if _, err := w.Spawn(&Spec{Name: fmt.Sprintf("a%d", killAsker)}); err == nil {
				r.Count("namesake-asker")
				for i := 0; i < 3; i++ {
					a := &c04AskT{idx: len(asks), timeout: 5 * time.Second, fromActor: killAsker, waiters: 1, closeAt: -1}
					a.req = c04Req{ID: 1000 + a.idx, Mode: []int{4, 2, 0}[i], Delay: 2 * time.Second}
					asks = append(asks, a)
					target := respRefs[r.Choose(nResp)]
					w.Tell(w.RefBy("create", nil, fmt.Sprintf("/a%d", killAsker)), w.NewCmd("ask", a.idx, func(ctx vivid.ActorContext, p *Probe) {
						mu.Lock()
						a.askAt = w.now()
						mu.Unlock()
						f := ctx.Ask(target, a.req, a.timeout)
						startWaiters(a, f)
					}))
				}
				vsimrt.Settle()
			}
		}
	}
	vsimrt.Settle()
	if stalled {
		// a stalled handler is not schedulable: quiescence at one instant no longer means that every asker has issued its
		// Ask and registered its waiters; stalls last at most 300 ms each
		vsimrt.SettleFor(5 * time.Second)
	}
	r.Waiting("every Result()/Wait() to return")
	wg.Wait()
	vsimrt.Yield()
	// "after completion" pipes
	for _, a := range asks {
		if a.pipe == 3 && a.fut != nil {
			_ = a.fut.PipeTo(fwdRefs[a.idx])
		}
	}
	vsimrt.SettleFor(3 * time.Second)
	if stalled {
		vsimrt.SettleFor(30 * time.Second)
	}
	if r.Failed() {
		return
	}
	mu.Lock()
	defer mu.Unlock()
	for _, a := range asks {
		if a.fut == nil {
			// the asking actor was killed before it processed the ask command
			continue
		}
		if len(a.outcomes) != a.waiters {
			r.Fail("C04/waiter-missing", "ask%d: %d of %d waiters returned", a.idx, len(a.outcomes), a.waiters)
			return
		}
		// one outcome for all waiters
		first := a.outcomes[0]
		var resMsg any
		for _, o := range a.outcomes {
			if !sameErr(o.err, first.err) {
				r.Fail("C04/waiters-disagree", "ask%d: waiters returned different outcomes: %v vs %v", a.idx, first.err, o.err)
				return
			}
			if o.kind == "Result" {
				if resMsg != nil && o.msg != nil && resMsg != o.msg {
					r.Fail("C04/waiters-disagree", "ask%d: waiters returned different messages: %v vs %v", a.idx, resMsg, o.msg)
					return
				}
				if o.msg != nil {
					resMsg = o.msg
				}
			}
			if o.at != first.at && !stalled {
				r.Fail("C04/waiters-released-at-different-times", "ask%d: one waiter returned at %v, another at %v", a.idx, first.at, o.at)
				return
			}
		}
		done := first.at
		deadline := a.askAt + a.timeout
		killedFirst := a.fromActor == killAsker && killedAt >= 0 && killedAt <= done
		replyAt := time.Duration(-1)
		switch a.req.Mode {
		case 0, 1, 3:
			replyAt = a.askAt
		case 2:
			replyAt = a.askAt + a.req.Delay
		}
		desc := fmt.Sprintf("ask%d (mode %s, delay %v, timeout %v, asked at %v, completed at %v, closer at %v, asker killed at %v)", a.idx, []string{"once", "twice", "late", "error", "never"}[a.req.Mode], a.req.Delay, a.timeout, a.askAt, done, a.closedAt, killedAt)
		switch {
		case first.err == nil:
			rep, ok := resMsg.(c04Rep)
			if resMsg == nil {
				// only Wait() waiters: nothing more to compare
				break
			}
			if !ok {
				r.Fail("C04/foreign-result", "%s completed with %T %v", desc, resMsg, resMsg)
				return
			}
			if rep.ID != a.req.ID {
				r.Fail("C04/reply-of-another-request", "%s completed with the reply of request %d", desc, rep.ID)
				return
			}
			if rep.N != 1 {
				r.Fail("C04/not-first-reply", "%s completed with reply #%d of its responder, not the first", desc, rep.N)
				return
			}
			if a.req.Mode == 3 || a.req.Mode == 4 {
				r.Fail("C04/impossible-reply", "%s completed with a reply nobody sent", desc)
				return
			}
			if done > deadline && !stalled {
				r.Fail("C04/completed-after-timeout", "%s: the reply completed the future after its deadline %v", desc, deadline)
				return
			}
			r.Count("outcome:reply")
		case errors.Is(first.err, vivid.ErrorFutureTimeout):
			if done < deadline {
				r.Fail("C04/timeout-early", "%s timed out before its deadline %v", desc, deadline)
				return
			}
			if done > deadline && !stalled {
				r.Fail("C04/timeout-late", "%s: Result/Wait blocked until %v, beyond the deadline %v", desc, done, deadline)
				return
			}
			if a.fromActor == killAsker && killedAt >= 0 && a.askAt <= killedAt && killedAt < deadline && !stalled {
				r.Fail("C04/asker-death-not-propagated", "%s: the asking actor was killed at %v, before the deadline %v, but the future was left to run into its time-out instead of completing with actor-dead", desc, killedAt, deadline)
				return
			}
			if replyAt >= 0 && replyAt < deadline && !killedFirst && !(a.closed && a.closedAt <= deadline) && !stalled {
				r.Fail("C04/reply-lost", "%s timed out although its responder replied at %v", desc, replyAt)
				return
			}
			r.Count("outcome:timeout")
		case errors.Is(first.err, vivid.ErrorActorDeaded):
			if !(a.fromActor == killAsker && killedAt >= 0) {
				r.Fail("C04/actor-dead-without-kill", "%s completed with actor-dead although its asker was never killed", desc)
				return
			}
			r.Count("outcome:asker-dead")
		case errors.Is(first.err, errC04Closed):
			if !a.closed {
				r.Fail("C04/closed-without-close", "%s completed with the closer's error but Close was never called", desc)
				return
			}
			r.Count("outcome:closed")
		case errors.Is(first.err, errC04Reply):
			if a.req.Mode != 3 {
				r.Fail("C04/foreign-result", "%s completed with the error reply of another request", desc)
				return
			}
			r.Count("outcome:error-reply")
		default:
			r.Fail("C04/unexpected-error", "%s completed with %v", desc, first.err)
			return
		}
		// forwarders: exactly one PipeResult each, equal to the outcome
		for k, ref := range fwdRefs[a.idx] {
			got := pipeGot[ref.GetPath()]
			if len(got) != 1 {
				r.Fail(fmt.Sprintf("C04/pipe-result-count=%d when=%s", len(got), []string{"-", "before", "around", "after"}[a.pipe]), "%s: forwarder %d (PipeTo %s completion) received %d PipeResults", desc, k, []string{"-", "before", "around", "after"}[a.pipe], len(got))
				w.DumpNotes(200)
				return
			}
			pr := got[0]
			if !sameErr(pr.Error, first.err) || (resMsg != nil && pr.Message != resMsg) || (first.err == nil && resMsg == nil && pr.Message == nil) {
				r.Fail(fmt.Sprintf("C04/pipe-result-differs when=%s", []string{"-", "before", "around", "after"}[a.pipe]), "%s: forwarder %d received PipeResult{%v, %v} but the future completed with (%v, %v)", desc, k, pr.Message, pr.Error, resMsg, first.err)
				return
			}
			r.Count("pipe-result-checked")
		}
	}
	// no registration survives completion
	vsimrt.Fence()
	inReg, inAgents := actor.VsimFutureRegistrations(sysI)
	if len(inReg) > 0 || len(inAgents) > 0 {
		r.Fail("C04/registration-leak", "after every future completed the system still holds registrations: registry=%v futureAgents=%v", inReg, inAgents)
		return
	}
	_ = sort.Strings
	_ = strings.Join
}

func sameErr(a, b error) bool {
	if a == nil || b == nil {
		return a == nil && b == nil
	}
	return errors.Is(a, b) || errors.Is(b, a) || a.Error() == b.Error()
}
