//go:build vsim

package vsimharness

import (
	"fmt"
	"sync"
	"time"

	"github.com/kercylan98/vivid/internal/queues"
	vsimrt "vsimrt/simrt"
)

// C02/W1 - the real RingQueue under 1-3 concurrent pushers and one popper (the mailbox's MPSC usage),
// small initial sizes so that growth happens with every head/tail offset (DESIGN.md 3, C02).

func init() {
	register(&Workload{Prop: "C02", Variant: "ring", Horizon: time.Minute, MaxSteps: 30000, MaxG: 256, Spin: 2000, PCTLen: 300, Race: true, Weight: 2, Body: c02Ring})
}

type ringItem struct{ pusher, seq int }

func c02Ring(r *R) {
	size := int64(1 + r.Choose(5))
	if r.Chance(10) {
		size = 256
	}
	q := queues.New(size)
	nPushers := 1 + r.Choose(3)
	counts := make([]int, nPushers)
	total := 0
	for i := range counts {
		counts[i] = 1 + r.Choose(40/nPushers)
		total += counts[i]
	}
	prePop := r.Choose(4) // pops attempted by the popper between waits
	r.Sample(map[string]any{"initial_size": size, "pushes_per_pusher": counts})
	var wg sync.WaitGroup
	for p := 0; p < nPushers; p++ {
		p := p
		wg.Add(1)
		vsimrt.Go("c02.pusher", func() {
			defer wg.Done()
			for k := 0; k < counts[p]; k++ {
				q.Push(ringItem{p, k})
			}
		})
	}
	var got []ringItem
	next := make([]int, nPushers)
	check := func(v any) bool {
		it, ok := v.(ringItem)
		if !ok {
			r.Fail("C02/ring-garbage", "Pop returned %#v which was never pushed", v)
			return false
		}
		if it.seq != next[it.pusher] {
			cls := "C02/ring-order"
			if it.seq < next[it.pusher] {
				cls = "C02/ring-duplicate"
			}
			r.Fail(cls, "pusher %d: popped item #%d but expected #%d (initial size %d, %d items popped so far)", it.pusher, it.seq, next[it.pusher], size, len(got))
			return false
		}
		next[it.pusher]++
		got = append(got, it)
		return true
	}
	// pops interleaved with the pushes
	attempts := total * (1 + prePop)
	for a := 0; a < attempts && len(got) < total; a++ {
		v, ok := q.Pop()
		if ok {
			if v == nil {
				r.Fail("C02/ring-nil", "Pop returned (nil,true): a slot was read before it was written or after it was cleared (initial size %d)", size)
				return
			}
			vsimrt.Progress()
			if !check(v) {
				return
			}
			if len(got) > 0 && r.Sim != nil && q.Length() < 0 {
				r.Fail("C02/ring-length-negative", "Length() < 0")
				return
			}
		}
	}
	r.Waiting("pushers")
	wg.Wait()
	vsimrt.Yield()
	for {
		v, ok := q.Pop()
		if !ok {
			break
		}
		if v == nil {
			r.Fail("C02/ring-nil", "Pop returned (nil,true) (initial size %d)", size)
			return
		}
		if !check(v) {
			return
		}
	}
	if len(got) != total {
		missing := ""
		for p := range next {
			if next[p] != counts[p] {
				missing += fmt.Sprintf(" pusher %d: got %d of %d;", p, next[p], counts[p])
			}
		}
		r.Fail("C02/ring-lost", "queue reports empty after %d of %d items were popped:%s (initial size %d)", len(got), total, missing, size)
		return
	}
	if q.Length() != 0 {
		r.Fail("C02/ring-length", "Length()=%d after everything was popped", q.Length())
	}
}
