//go:build vsim

package vsimharness

import (
	"encoding/binary"
	"errors"
	"fmt"
	"hash/crc32"
	"sync"
	"time"

	"github.com/kercylan98/vivid"
	"github.com/kercylan98/vivid/internal/messages"
	"github.com/kercylan98/vivid/pkg/bootstrap"
	"github.com/kercylan98/vivid/pkg/log"
	"github.com/kercylan98/vivid/pkg/ves"
	"vsimrt/simnet"
	vsimrt "vsimrt/simrt"
)

// ---- multi-node engine: real ActorSystems with remoting over simnet (DESIGN.md 2.4, 2.5) ----

// RMsg is the numbered, checksummed payload of the remoting workloads (registered with the built-in wire registry).
type RMsg struct {
	From string
	Seq  int64
	Sum  uint32
	Pad  []byte
	Want int32 // 0 tell, 1 please reply
}

// RRep is the reply to an RMsg with Want=1.
type RRep struct {
	Seq int64
	By  string
}

// UMsg is NOT registered: it travels through the user Codec.
type UMsg struct {
	From string
	Seq  int64
	Pad  []byte
}

func init() {
	vivid.RegisterCustomMessage[*RMsg]("vsimRMsg",
		func(message any, r *messages.Reader, _ messages.Codec) error {
			m := message.(*RMsg)
			return r.ReadInto(&m.From, &m.Seq, &m.Sum, &m.Pad, &m.Want)
		},
		func(message any, w *messages.Writer, _ messages.Codec) error {
			m := message.(*RMsg)
			return w.WriteFrom(m.From, m.Seq, m.Sum, m.Pad, m.Want)
		})
	vivid.RegisterCustomMessage[*RRep]("vsimRRep",
		func(message any, r *messages.Reader, _ messages.Codec) error {
			m := message.(*RRep)
			return r.ReadInto(&m.Seq, &m.By)
		},
		func(message any, w *messages.Writer, _ messages.Codec) error {
			m := message.(*RRep)
			return w.WriteFrom(m.Seq, m.By)
		})
}

// harnessCodec is a user Codec for *UMsg.
type harnessCodec struct{}

func (harnessCodec) Encode(message vivid.Message) ([]byte, error) {
	m, ok := message.(*UMsg)
	if !ok {
		return nil, fmt.Errorf("harnessCodec: unsupported %T", message)
	}
	b := make([]byte, 0, 16+len(m.From)+len(m.Pad))
	b = binary.BigEndian.AppendUint32(b, uint32(len(m.From)))
	b = append(b, m.From...)
	b = binary.BigEndian.AppendUint64(b, uint64(m.Seq))
	b = binary.BigEndian.AppendUint32(b, uint32(len(m.Pad)))
	b = append(b, m.Pad...)
	return b, nil
}

func (harnessCodec) Decode(b []byte) (vivid.Message, error) {
	if len(b) < 4 {
		return nil, errors.New("short")
	}
	n := int(binary.BigEndian.Uint32(b))
	if len(b) < 4+n+12 {
		return nil, errors.New("short")
	}
	m := &UMsg{From: string(b[4 : 4+n])}
	m.Seq = int64(binary.BigEndian.Uint64(b[4+n:]))
	pl := int(binary.BigEndian.Uint32(b[12+n:]))
	if len(b) != 16+n+pl {
		return nil, errors.New("bad length")
	}
	m.Pad = append([]byte(nil), b[16+n:]...)
	return m, nil
}

func padFor(seq int64, size int) []byte {
	p := make([]byte, size)
	x := uint32(seq)*2654435761 + 12345
	for i := range p {
		x = x*1664525 + 1013904223
		p[i] = byte(x >> 24)
	}
	return p
}

// RecvRec is one message seen by a sink behaviour.
type RecvRec struct {
	From   string
	Seq    int64
	OK     bool // checksum / pad content intact
	Sender string
	At     time.Duration
	Via    string // RMsg or UMsg
}

type RNode struct {
	r    *R
	Tag  int
	Addr string
	Sys  vivid.PrimaryActorSystem
	t0   time.Time

	mu           sync.Mutex
	recv         map[string][]RecvRec // sink name -> records
	replies      map[string][]int64   // asker name -> reply seqs
	decodeFailed int
	deadLetters  []string // "From#Seq"
	connFailed   int
	started      bool
	stopped      bool
}

func (n *RNode) Do(f func()) { vsimrt.WithTag(n.Tag, f) }

type RNodeOpt struct {
	Codec          bool
	ReconnectLimit int // -1 default
	InitialDelay   time.Duration
	MaxDelay       time.Duration
	Jitter         bool
	Extra          []vivid.ActorSystemOption
	Cluster        []vivid.ClusterOption // non-nil: enable the cluster with these options
}

// StartRNode creates and starts a system with remoting on addr under node tag tag, and waits for its listener.
func StartRNode(r *R, nw *simnet.Net, tag int, addr string, o RNodeOpt) *RNode {
	n := &RNode{r: r, Tag: tag, Addr: addr, recv: map[string][]RecvRec{}, replies: map[string][]int64{}, t0: time.Now()}
	nw.RegisterNode(addr, tag)
	ready := make(chan struct{})
	n.Do(func() {
		ro := vivid.NewActorSystemRemotingOptions()
		if o.ReconnectLimit >= 0 {
			ro.ReconnectLimit = o.ReconnectLimit
		}
		if o.InitialDelay > 0 {
			ro.ReconnectInitialDelay = o.InitialDelay
		}
		if o.MaxDelay > 0 {
			ro.ReconnectMaxDelay = o.MaxDelay
		}
		ro.ReconnectJitter = o.Jitter
		if o.Cluster != nil {
			ro.ClusterOptions = vivid.NewClusterOptions(o.Cluster...)
		}
		opts := []vivid.ActorSystemOption{vivid.WithActorSystemLogger(log.NewSilentLogger()), vivid.WithActorSystemRemoting(addr), vivid.WithActorSystemRemotingOptions(ro)}
		if o.Codec {
			opts = append(opts, vivid.WithActorSystemCodec(harnessCodec{}))
		}
		opts = append(opts, o.Extra...)
		n.Sys = bootstrap.NewActorSystem(opts...)
		// the observer must exist before Start publishes RemotingServerStartedEvent: subscribe from a top-level actor
		// spawned right after Start; the acceptor starts asynchronously, so poll FindActor for it as a fallback
		if err := n.Sys.Start(); err != nil {
			r.Fail(r.Prop+"/start-failed", "node %s: Start() returned %v", addr, err)
			close(ready)
			return
		}
		_, err := n.Sys.ActorOf(vivid.ActorFN(func(ctx vivid.ActorContext) {
			switch m := ctx.Message().(type) {
			case *vivid.OnLaunch:
				ctx.EventStream().Subscribe(ctx, ves.RemotingServerStartedEvent{})
				ctx.EventStream().Subscribe(ctx, ves.RemotingMessageDecodeFailedEvent{})
				ctx.EventStream().Subscribe(ctx, ves.DeathLetterEvent{})
				ctx.EventStream().Subscribe(ctx, ves.RemotingConnectionFailedEvent{})
			case ves.RemotingServerStartedEvent:
				n.mu.Lock()
				if !n.started {
					n.started = true
					close(ready)
				}
				n.mu.Unlock()
			case ves.RemotingMessageDecodeFailedEvent:
				n.mu.Lock()
				n.decodeFailed++
				if n.decodeFailed <= 3 {
					r.Note("decode failed at %s: %d bytes from %s: %v", n.Addr, m.MessageSize, m.RemoteAddr, m.Error)
				}
				n.mu.Unlock()
			case ves.RemotingConnectionFailedEvent:
				n.mu.Lock()
				n.connFailed++
				n.mu.Unlock()
			case ves.DeathLetterEvent:
				switch p := m.Envelope.Message().(type) {
				case *RMsg:
					n.mu.Lock()
					n.deadLetters = append(n.deadLetters, fmt.Sprintf("%s#%d", p.From, p.Seq))
					n.mu.Unlock()
				case *UMsg:
					n.mu.Lock()
					n.deadLetters = append(n.deadLetters, fmt.Sprintf("%s#%d", p.From, p.Seq))
					n.mu.Unlock()
				}
			}
		}), vivid.WithActorName("robs"))
		if err != nil {
			r.Fail(r.Prop+"/harness", "observer: %v", err)
		}
	})
	// the acceptor may already have started before the observer subscribed: fall back to looking it up
	for i := 0; i < 200; i++ {
		n.mu.Lock()
		st := n.started
		n.mu.Unlock()
		if st {
			break
		}
		var found bool
		n.Do(func() {
			ref, _ := n.Sys.CreateRef(addr, "/@remoting/acceptor")
			_, err := n.Sys.FindActor(ref.String())
			found = err == nil
		})
		if found {
			n.mu.Lock()
			if !n.started {
				n.started = true
				close(ready)
			}
			n.mu.Unlock()
			break
		}
		vsimrt.Sleep(10 * time.Millisecond)
	}
	r.Waiting("remoting listener of " + addr)
	<-ready
	vsimrt.Yield()
	return n
}

// Sink spawns a recording actor that replies to Want=1 messages.
func (n *RNode) Sink(name string) {
	n.Do(func() {
		_, err := n.Sys.ActorOf(vivid.ActorFN(func(ctx vivid.ActorContext) {
			switch m := ctx.Message().(type) {
			case *RMsg:
				ok := crc32.ChecksumIEEE(m.Pad) == m.Sum && string(padFor(m.Seq, len(m.Pad))) == string(m.Pad)
				rec := RecvRec{From: m.From, Seq: m.Seq, OK: ok, At: time.Since(n.t0), Via: "RMsg"}
				if s := ctx.Sender(); s != nil {
					rec.Sender = s.String()
				}
				n.mu.Lock()
				n.recv[name] = append(n.recv[name], rec)
				n.mu.Unlock()
				vsimrt.Progress()
				if m.Want == 1 {
					ctx.Reply(&RRep{Seq: m.Seq, By: name})
				}
			case *UMsg:
				ok := string(padFor(m.Seq, len(m.Pad))) == string(m.Pad)
				rec := RecvRec{From: m.From, Seq: m.Seq, OK: ok, At: time.Since(n.t0), Via: "UMsg"}
				if s := ctx.Sender(); s != nil {
					rec.Sender = s.String()
				}
				n.mu.Lock()
				n.recv[name] = append(n.recv[name], rec)
				n.mu.Unlock()
				vsimrt.Progress()
			}
		}), vivid.WithActorName(name))
		if err != nil {
			n.r.Fail(n.r.Prop+"/harness", "sink: %v", err)
		}
	})
}

func (n *RNode) Recv(sink string) []RecvRec {
	n.mu.Lock()
	defer n.mu.Unlock()
	return append([]RecvRec(nil), n.recv[sink]...)
}

func (n *RNode) Stop() error {
	var err error
	n.Do(func() {
		n.r.Waiting("Stop of node " + n.Addr)
		err = n.Sys.Stop(30 * time.Second)
		vsimrt.Yield()
	})
	n.mu.Lock()
	n.stopped = true
	n.mu.Unlock()
	return err
}

func newRMsg(from string, seq int64, size int, want int32) *RMsg {
	p := padFor(seq, size)
	return &RMsg{From: from, Seq: seq, Sum: crc32.ChecksumIEEE(p), Pad: p, Want: want}
}

// netFaultCounts copies the network's fired-fault counters into the run's reach counters.
func netFaultCounts(r *R, nw *simnet.Net) {
	s := nw.StatsCopy()
	r.CountN("net:dials", s.Dials)
	r.CountN("net:reads", s.Reads)
	r.CountN("net:partial-reads", s.PartialReads)
	r.CountN("net:coalesced-reads(several frames in one read)", s.CoalescedReads)
	r.CountN("net:bytes", s.Bytes)
	r.CountN("fault:dial-refused", s.Refused)
	r.CountN("fault:dial-blackholed", s.Blackholed)
	r.CountN("fault:dial-partitioned", s.PartitionRefused)
	r.CountN("fault:connection-cut", s.Cuts)
	r.CountN("fault:cut-eof", s.CutEOF)
	r.CountN("fault:cut-rst", s.CutRST)
	r.CountN("fault:write-error-one-write-late", s.WriteErrLate)
	r.CountN("fault:partition", s.Partitions)
	r.CountN("fault:node-crash", s.Crashes)
	r.CountN("net:delayed-writes", s.Delayed)
	r.CountN("net:writes-failed-by-stale-write-deadline", s.WriteDeadline)
}
