//go:build vsim

package vsimharness

import (
	"fmt"
	"sort"
	"strings"
	"sync"
	"time"

	"github.com/kercylan98/vivid"
	"github.com/kercylan98/vivid/pkg/ves"
	"github.com/kercylan98/vivid/internal/actor"
	vsimrt "vsimrt/simrt"
)

// C06 - killing an actor terminates its whole subtree, children first, once each (DESIGN.md 3, C06).

func init() {
	register(&Workload{Prop: "C06", Variant: "subtree", Horizon: 20 * time.Minute, MaxSteps: 300000, MaxG: 4096, Spin: 8000, PCTLen: 4000, Body: c06Subtree})
}

type c06Evt struct{ N int }
type c06Tick struct{ Owner string }

func c06Subtree(r *R) {
	w := newWorld(r, WorldOpt{})
	if r.Failed() {
		return
	}
	var mu sync.Mutex
	evtSeen := map[string][]int{} // path -> event numbers seen (with sim time)
	evtSeenAt := map[string][]time.Duration{}
	tickAt := map[string][]time.Duration{} // owner path -> times a tick was delivered
	onOther := func(ctx vivid.ActorContext, p *Probe, m any) {
		switch v := m.(type) {
		case c06Evt:
			mu.Lock()
			evtSeen[p.Path] = append(evtSeen[p.Path], v.N)
			evtSeenAt[p.Path] = append(evtSeenAt[p.Path], w.now())
			mu.Unlock()
		case c06Tick:
			mu.Lock()
			tickAt[v.Owner] = append(tickAt[v.Owner], w.now())
			mu.Unlock()
		}
	}
	// jobs per actor: one Loop; or a Once that has fired long before the kill plus the Loop; or those plus a second Loop
	// (termination must clear every job of an actor, whatever state its other jobs are in)
	jobsMode := r.Choose(3)
	// subscriptions per actor: one; or one plus a subscription to another event type that is given up again at once (what is
	// left must still be removed at termination); or both kept, the first one requested twice
	subsMode := r.Choose(3)
	launch := func(ctx vivid.ActorContext, p *Probe) {
		ctx.EventStream().Subscribe(ctx, c06Evt{})
		switch subsMode {
		case 1:
			ctx.EventStream().Subscribe(ctx, c06Tick{})
			ctx.EventStream().Unsubscribe(ctx, c06Tick{})
		case 2:
			ctx.EventStream().Subscribe(ctx, c06Tick{})
			ctx.EventStream().Subscribe(ctx, c06Evt{})
			ctx.EventStream().Subscribe(ctx, ves.ActorKilledEvent{})
		}
		if jobsMode >= 1 {
			_ = ctx.Scheduler().Once(ctx.Ref(), time.Millisecond, c06Tick{Owner: p.Path}, vivid.WithSchedulerReference("o1"))
		}
		_ = ctx.Scheduler().Loop(ctx.Ref(), 100*time.Millisecond, c06Tick{Owner: p.Path})
		if jobsMode >= 2 {
			_ = ctx.Scheduler().Loop(ctx.Ref(), 150*time.Millisecond, c06Tick{Owner: p.Path}, vivid.WithSchedulerReference("l2"))
		}
	}
	// In some runs every actor with children answers the termination of a child by spawning a replacement ("keep N workers
	// alive") - also while it is itself on its way out, when that death was its last one: the replacement is a descendant
	// like any other, is killed with its parent, and the parent is reported terminated after it.
	respawnOnChildDeath := r.Chance(35)
	parent := map[string]string{"/a": "/"}
	var mk func(name string) *Spec
	childKilled := func(ctx vivid.ActorContext, p *Probe, ref vivid.ActorRef) {
		if !respawnOnChildDeath || ref.Equals(ctx.Ref()) || strings.Contains(ref.GetPath(), "/re") {
			return
		}
		name := fmt.Sprintf("re%d", w.NewID())
		path := strings.TrimSuffix(p.Path, "/") + "/" + name
		if _, err := w.SpawnIn(ctx, mk(name)); err == nil {
			mu.Lock()
			parent[path] = p.Path
			mu.Unlock()
			r.Count("child-respawned-on-a-child's-death")
		}
	}
	mk = func(name string) *Spec {
		return &Spec{Name: name, OnLaunch: launch, OnOther: onOther, OnKilled: childKilled}
	}
	top := mk("a")
	if r.Chance(20) {
		// a top-level actor watches its own parent, the root actor (the only actor without a parent)
		top.OnLaunch = func(ctx vivid.ActorContext, p *Probe) {
			launch(ctx, p)
			ctx.Watch(ctx.Parent())
			r.Count("top-level-actor-watches-the-root")
		}
	}
	paths := []string{"/a"}
	nB := 1 + r.Choose(3)
	for i := 0; i < nB; i++ {
		b := mk(fmt.Sprintf("b%d", i))
		bp := "/a/" + b.Name
		parent[bp] = "/a"
		paths = append(paths, bp)
		nG := r.Choose(3)
		for j := 0; j < nG; j++ {
			g := mk(fmt.Sprintf("g%d", j))
			gp := bp + "/" + g.Name
			parent[gp] = bp
			paths = append(paths, gp)
			if r.Chance(30) {
				h := mk("h")
				g.Children = append(g.Children, h)
				parent[gp+"/h"] = gp
				paths = append(paths, gp+"/h")
			}
			b.Children = append(b.Children, g)
		}
		top.Children = append(top.Children, b)
	}
	if _, err := w.Spawn(top); err != nil {
		r.Fail("C06/harness", "spawn: %v", err)
		return
	}
	nW := 1 + r.Choose(2)
	var watchers []vivid.ActorRef
	for i := 0; i < nW; i++ {
		// the watchers' paths (/a0, /a1) have the top actor's path (/a) as a string prefix without being its descendants
		ref, err := w.Spawn(&Spec{Name: fmt.Sprintf("a%d", i)})
		if err != nil {
			r.Fail("C06/harness", "spawn watcher: %v", err)
			return
		}
		watchers = append(watchers, ref)
	}
	vsimrt.Settle()
	// watches registered at drawn times (some before, some racing the kills)
	type watch struct {
		watcher int
		target  string
		late    bool
	}
	var watches []watch
	for i := 0; i < 1+r.Choose(4); i++ {
		watches = append(watches, watch{watcher: r.Choose(nW), target: paths[r.Choose(len(paths))], late: r.Chance(30)})
	}
	doWatch := func(wt watch) {
		tref := w.RefBy(provenances[1+r.Choose(3)], nil, wt.target)
		w.Tell(watchers[wt.watcher], w.NewCmd("watch", 0, func(ctx vivid.ActorContext, p *Probe) { ctx.Watch(tref) }))
	}
	for _, wt := range watches {
		if !wt.late {
			doWatch(wt)
		}
	}
	vsimrt.SettleFor(250 * time.Millisecond)

	// kill phase
	nKills := 1 + r.Choose(3)
	type kill struct {
		target    string
		poison    bool
		from      int // 0 outside, 1 from an actor (a watcher)
		twice     bool
		spawnRace bool
	}
	var kills []kill
	var kdesc []string
	for i := 0; i < nKills; i++ {
		k := kill{target: paths[r.Choose(len(paths))], poison: r.Chance(40), from: r.Choose(2), twice: r.Chance(30), spawnRace: r.Chance(30)}
		kills = append(kills, k)
		kdesc = append(kdesc, fmt.Sprintf("%s poison=%v from=%d twice=%v spawnrace=%v", k.target, k.poison, k.from, k.twice, k.spawnRace))
	}
	r.Sample(map[string]any{"tree": paths, "watches": fmt.Sprint(watches), "kills": kdesc})
	var wg sync.WaitGroup
	for _, k := range kills {
		k := k
		wg.Add(1)
		vsimrt.Go("c06.killer", func() {
			defer wg.Done()
			ref := w.RefBy(provenances[1+r.Choose(3)], nil, k.target)
			if k.spawnRace {
				w.Tell(ref, w.NewCmd("spawnrace", 0, func(ctx vivid.ActorContext, p *Probe) {
					name := fmt.Sprintf("late%d", w.NewID())
					s := mk(name)
					path := strings.TrimSuffix(p.Path, "/") + "/" + name
					if _, err := w.SpawnIn(ctx, s); err == nil {
						mu.Lock()
						parent[path] = p.Path
						mu.Unlock()
						r.Count("spawn-racing-kill")
					}
				}))
			}
			n := 1
			if k.twice {
				n = 2
			}
			for i := 0; i < n; i++ {
				if k.from == 0 {
					w.Sys.Kill(ref, k.poison, "scripted")
				} else {
					w.Tell(watchers[0], w.NewCmd("killer", 0, func(ctx vivid.ActorContext, p *Probe) { ctx.Kill(ref, k.poison, "scripted") }))
				}
			}
		})
	}
	for _, wt := range watches {
		if wt.late {
			doWatch(wt)
		}
	}
	r.Waiting("killers")
	wg.Wait()
	vsimrt.Yield()
	vsimrt.SettleFor(time.Second)
	if r.Failed() {
		return
	}
	evs := w.Events()
	mu.Lock()
	par := map[string]string{}
	for k, v := range parent {
		par[k] = v
	}
	mu.Unlock()
	allPaths := sortedPaths(par)
	isUnder := func(p, root string) bool { return p == root || strings.HasPrefix(p, root+"/") }
	// which subtrees must be dead
	mustDie := map[string]bool{}
	for _, k := range kills {
		for _, p := range allPaths {
			if isUnder(p, k.target) {
				mustDie[p] = true
			}
		}
	}
	killedEvtIdx := map[string][]int{} // path -> indices (in evs) of ActorKilled events
	killedAt := map[string]time.Duration{}
	for i, e := range evs {
		if e.Path == "@obs" && e.Kind == "Evt:ActorKilled" {
			killedEvtIdx[e.Ref] = append(killedEvtIdx[e.Ref], i)
			killedAt[e.Ref] = e.T
		}
	}
	lives := Lives(evs)
	for _, p := range allPaths {
		if !mustDie[p] {
			continue
		}
		ls := lives[p]
		if len(ls) == 0 {
			continue // a racing spawn that never launched
		}
		last := ls[len(ls)-1]
		dead := false
		for _, e := range last.Events {
			if e.Kind == "OnKilled" && e.Ref == p {
				dead = true
			}
		}
		if !dead {
			r.Fail("C06/descendant-survived", "%s is in the subtree of a killed actor (kills: %v) but never terminated; its trace: %s", p, kdesc, fmtEvents(last.Events, 12))
			w.DumpNotes(400)
			return
		}
		if n := len(killedEvtIdx[p]); n != 1 {
			r.Fail(fmt.Sprintf("C06/actor-killed-event-count=%d", n), "%d ActorKilledEvent(s) were published for %s (expected exactly one)", n, p)
			return
		}
	}
	// children first: the event of an actor comes after the events of all its descendants
	for _, p := range allPaths {
		if !mustDie[p] || len(killedEvtIdx[p]) == 0 {
			continue
		}
		for _, d := range allPaths {
			if d != p && isUnder(d, p) && len(killedEvtIdx[d]) > 0 && killedEvtIdx[d][0] > killedEvtIdx[p][0] {
				r.Fail("C06/parent-reported-before-descendant", "ActorKilledEvent(%s) was published before ActorKilledEvent(%s) of its descendant", p, d)
				w.DumpNotes(400)
				return
			}
		}
	}
	// parent and watchers: exactly one OnKilled per terminated actor
	for _, p := range allPaths {
		if !mustDie[p] || len(lives[p]) == 0 {
			continue
		}
		pp := par[p]
		if pp != "/" {
			n := 0
			for _, e := range evs {
				if e.Path == pp && e.Kind == "OnKilled" && e.Ref == p {
					n++
				}
			}
			if n != 1 {
				r.Fail(fmt.Sprintf("C06/parent-onkilled-count=%d", n), "parent %s received %d OnKilled for its child %s (expected exactly one)", pp, n, p)
				w.DumpNotes(400)
				return
			}
		}
	}
	for wi := range watchers {
		wpath := fmt.Sprintf("/a%d", wi)
		for _, p := range allPaths {
			if !mustDie[p] || len(killedEvtIdx[p]) == 0 {
				continue
			}
			// registered = ActorWatchedEvent(target=p, watcher=wpath) observed before the target's ActorKilledEvent
			registered := false
			for i, e := range evs {
				if e.Path == "@obs" && e.Kind == "Evt:ActorWatched" && e.Ref == p && e.Info == wpath && i < killedEvtIdx[p][0] {
					registered = true
				}
			}
			n := 0
			for _, e := range evs {
				if e.Path == wpath && e.Kind == "OnKilled" && e.Ref == p {
					n++
				}
			}
			if registered {
				r.Count("registered-watch-of-killed-actor")
			}
			if (registered && n != 1) || n > 1 {
				r.Fail(fmt.Sprintf("C06/watcher-onkilled-count=%d registered=%v", n, registered), "watcher %s received %d OnKilled for %s (watch registered before termination: %v)", wpath, n, p, registered)
				w.DumpNotes(400)
				return
			}
		}
	}
	// path released: FindActor fails, and the parent can reuse the name
	for _, k := range kills {
		if ref, err := w.Sys.FindActor(w.RefBy("create", nil, k.target).String()); err == nil {
			r.Fail("C06/path-not-released", "FindActor(%s) still returns %v after termination", k.target, ref)
			return
		}
	}
	reuse := kills[0].target
	if pp := par[reuse]; pp != "/" && !mustDie[pp] {
		name := reuse[strings.LastIndex(reuse, "/")+1:]
		done := make(chan error, 1)
		w.Tell(w.RefBy("create", nil, pp), w.NewCmd("reuse", 0, func(ctx vivid.ActorContext, p *Probe) {
			_, err := w.SpawnIn(ctx, &Spec{Name: name})
			done <- err
		}))
		r.Waiting("name re-use spawn")
		err := <-done
		vsimrt.Yield()
		if err != nil {
			r.Fail("C06/name-not-reusable", "parent %s could not spawn a new child named %q after the old one terminated: %v", pp, name, err)
			return
		}
		r.Count("name-reused")
	} else if pp == "/" {
		if _, err := w.Spawn(&Spec{Name: "a"}); err != nil {
			r.Fail("C06/name-not-reusable", "top-level name %q could not be reused after termination: %v", "a", err)
			return
		}
		r.Count("name-reused")
	}
	// stale subscriptions and jobs: publish now, wait, nothing may reach (or be dead-lettered for) the dead actors
	mark := len(w.Events())
	tPub := w.now()
	w.Tell(watchers[0], w.NewCmd("publisher", 0, func(ctx vivid.ActorContext, p *Probe) {
		ctx.EventStream().Publish(ctx, c06Evt{N: 999})
		ctx.EventStream().Publish(ctx, c06Tick{Owner: "@published-after-the-kill"})
	}))
	vsimrt.SettleFor(time.Second)
	evs2 := w.Events()
	mu.Lock()
	defer mu.Unlock()
	for _, p := range allPaths {
		if !mustDie[p] || p == reuse || len(killedEvtIdx[p]) == 0 {
			continue
		}
		for i, n := range evtSeen[p] {
			if n == 999 && evtSeenAt[p][i] >= tPub {
				r.Fail("C06/stale-subscription-delivery", "event published after %s terminated was delivered to it", p)
				return
			}
		}
		// the actor's own ActorKilledEvent is published when its subscriptions are gone: it is never sent to the actor itself
		for _, e := range evs2 {
			if e.Kind == "Evt:DeathLetter" && e.Ref == p && e.Info == "ves.ActorKilledEvent of="+p {
				r.Fail("C06/own-killed-event-sent-to-terminated-actor", "%s subscribed to ActorKilledEvent; the event announcing its own termination was sent to it and became a dead letter: its subscriptions were still in place when it was reported terminated", p)
				return
			}
		}
		for _, e := range evs2[mark:] {
			if e.Kind == "Evt:DeathLetter" && e.Ref == p && (strings.Contains(e.Info, "c06Evt") || strings.HasSuffix(e.Info, "c06Tick")) {
				r.Fail("C06/stale-subscription", "an event published after %s terminated was sent to it and became a dead letter: its subscription was not removed", p)
				return
			}
			if e.Kind == "Evt:DeathLetter" && e.Ref == p && strings.Contains(e.Info, "SchedulerMessage") && e.T > killedAt[p] {
				r.Fail("C06/job-fired-after-termination", "a scheduled message of %s fired at %v, after its termination at %v (dead letter)", p, e.T, killedAt[p])
				return
			}
		}
		for _, t := range tickAt[p] {
			if t > killedAt[p] {
				r.Fail("C06/job-fired-after-termination", "a scheduled message of %s was delivered at %v, after its termination at %v", p, t, killedAt[p])
				return
			}
		}
	}
	_ = sort.Strings
}

// kills racing spawns on the one actor whose ActorOf is callable from any goroutine: the root (ActorSystem.ActorOf
// racing ActorSystem.Stop, with older children that take a moment to stop so that the root stays in the killing state)
func init() {
	register(&Workload{Prop: "C06", Variant: "root-spawn-race", Horizon: 20 * time.Minute, MaxSteps: 200000, MaxG: 4096, Spin: 8000, PCTLen: 1200, Weight: 1, Body: c06RootSpawnRace})
	register(&Workload{Prop: "C06", Variant: "name-reuse", Horizon: 10 * time.Minute, MaxSteps: 150000, MaxG: 4096, Spin: 5000, PCTLen: 1200, Body: c06NameReuse})
}

func c06RootSpawnRace(r *R) {
	w := newWorld(r, WorldOpt{})
	if r.Failed() {
		return
	}
	slow := func(ctx vivid.ActorContext, p *Probe) { vsimrt.Sleep(time.Duration(1+r.Choose(30)) * time.Millisecond) }
	nOld := 1 + r.Choose(3)
	for i := 0; i < nOld; i++ {
		if _, err := w.Spawn(&Spec{Name: fmt.Sprintf("old%d", i), OnKill: slow, Children: []*Spec{{Name: "k", OnKill: slow}}}); err != nil {
			r.Fail("C06/harness", "spawn: %v", err)
			return
		}
	}
	vsimrt.Settle()
	nSpawners := 1 + r.Choose(3)
	r.Sample(map[string]any{"old_children": nOld, "spawners": nSpawners})
	var mu sync.Mutex
	var spawned []string
	var wg sync.WaitGroup
	// simulated time is discrete: calls only interleave when they start at the same instant, so most spawners start
	// exactly when Stop is called
	stopAt := time.Duration(r.Choose(40)) * time.Millisecond
	for g := 0; g < nSpawners; g++ {
		g := g
		delay := stopAt
		if r.Chance(30) {
			delay = time.Duration(r.Choose(40)) * time.Millisecond
		}
		wg.Add(1)
		vsimrt.Go("c06.spawner", func() {
			defer wg.Done()
			if delay > 0 {
				vsimrt.Sleep(delay)
			}
			for k := 0; k < 2; k++ {
				name := fmt.Sprintf("late%d_%d", g, k)
				if _, err := w.Spawn(&Spec{Name: name, Children: []*Spec{{Name: "k"}}}); err == nil {
					mu.Lock()
					spawned = append(spawned, "/"+name)
					mu.Unlock()
				}
			}
		})
	}
	if stopAt > 0 {
		vsimrt.Sleep(stopAt)
	}
	r.Waiting("Stop")
	err := w.Sys.Stop(5 * time.Second)
	vsimrt.Yield()
	r.Waiting("spawners")
	wg.Wait()
	vsimrt.Yield()
	vsimrt.SettleFor(time.Second)
	if err != nil {
		r.Fail("C06/root-kill-did-not-complete", "Stop returned %v although no actor blocks for more than 30 ms: the root never saw all of its children terminate; live: %s", err, describeLive(r.Sim.Live()))
		w.DumpNotes(300)
		return
	}
	lives := Lives(w.Events())
	mu.Lock()
	defer mu.Unlock()
	for _, p := range spawned {
		for _, q := range []string{p, p + "/k"} {
			ls := lives[q]
			if len(ls) == 0 {
				continue
			}
			dead := false
			for _, e := range ls[len(ls)-1].Events {
				if e.Kind == "OnKilled" && e.Ref == q {
					dead = true
				}
			}
			if len(ls[len(ls)-1].Events) > 0 && !dead {
				r.Fail("C06/descendant-survived spawn-racing-root-kill", "%s was spawned (ActorOf returned no error) while the root was being killed and was never terminated; trace: %s", q, fmtEvents(ls[len(ls)-1].Events, 8))
				w.DumpNotes(300)
				return
			}
		}
	}
	r.CountN("spawns-racing-root-kill", len(spawned))
}

// c06NameReuse: "once terminated its path is released ... the name can be reused by the parent". A child is killed from
// outside while its parent keeps trying to create a child of the same name (respawn on demand): the first attempt that
// finds the path released succeeds - possibly before the parent has handled the old child's OnKilled. The new namesake
// must be a full member of the tree: listed by its parent, reachable, and terminated with the parent.
func c06NameReuse(r *R) {
	w := newWorld(r, WorldOpt{})
	if r.Failed() {
		return
	}
	sysI := actor.VsimSystem(w.Sys)
	if _, err := w.Spawn(&Spec{Name: "p", Children: []*Spec{{Name: "x"}, {Name: "y"}}}); err != nil {
		r.Fail("C06/harness", "spawn: %v", err)
		return
	}
	vsimrt.Settle()
	attempts := 3 + r.Choose(10)
	poison := r.Chance(30)
	r.Sample(map[string]any{"respawn_attempts": attempts, "poison": poison})
	var mu sync.Mutex
	respawned := 0
	var wg sync.WaitGroup
	wg.Add(2)
	vsimrt.Go("c06.killer", func() {
		defer wg.Done()
		for i, n := 0, r.Choose(6); i < n; i++ {
			vsimrt.Yield()
		}
		w.Sys.Kill(w.RefBy("create", nil, "/p/x"), poison, "scripted")
	})
	vsimrt.Go("c06.respawner", func() {
		defer wg.Done()
		pref := w.RefBy("create", nil, "/p")
		for i := 0; i < attempts; i++ {
			w.Tell(pref, w.NewCmd("respawn", i, func(ctx vivid.ActorContext, p *Probe) {
				mu.Lock()
				done := respawned > 0
				mu.Unlock()
				if done {
					return
				}
				if _, err := w.SpawnIn(ctx, &Spec{Name: "x"}); err == nil {
					mu.Lock()
					respawned++
					mu.Unlock()
					r.Count("namesake-created")
				}
			}))
			vsimrt.Yield()
		}
	})
	r.Waiting("killer and respawner")
	wg.Wait()
	vsimrt.Yield()
	vsimrt.SettleFor(500 * time.Millisecond)
	if r.Failed() {
		return
	}
	if !treeConsistent(r, sysI, "C06") {
		w.DumpNotes(200)
		return
	}
	mu.Lock()
	n := respawned
	mu.Unlock()
	if n > 0 {
		// the namesake is alive and reachable
		pc := w.NewCmd("probe", 0, nil)
		w.Tell(w.RefBy("create", nil, "/p/x"), pc)
		vsimrt.SettleFor(100 * time.Millisecond)
		ok := false
		for _, e := range w.Events() {
			if e.Kind == "Cmd" && e.ID == pc.ID {
				ok = true
			}
		}
		if !ok {
			r.Fail("C06/namesake-not-reachable", "the parent re-created /p/x after the old one had terminated, but a message to the new actor was not processed")
			w.DumpNotes(200)
			return
		}
	}
	// terminating the parent terminates the namesake
	w.Sys.Kill(w.RefBy("create", nil, "/p"), false, "scripted")
	vsimrt.SettleFor(500 * time.Millisecond)
	vsimrt.Fence()
	for _, c := range actor.VsimContexts(sysI) {
		if strings.HasPrefix(c.Path, "/p") {
			r.Fail("C06/namesake-survived-parent", "after /p was killed, %s is still registered (state %d, children %v): the re-created child was not part of its parent's children table (namesake created: %v)", c.Path, c.State, c.Children, n > 0)
			w.DumpNotes(200)
			return
		}
	}
	if err := w.Stop(30 * time.Second); err != nil {
		r.Fail("C06/stop-failed after-name-reuse", "Stop returned %v", err)
		return
	}
}
