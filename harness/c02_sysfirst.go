//go:build vsim

package vsimharness

import (
	"fmt"
	"sync"
	"time"

	"github.com/kercylan98/vivid"
	"github.com/kercylan98/vivid/internal/mailbox"
	vsimrt "vsimrt/simrt"
)

// C02, component level: "system messages that are pending are processed before pending user messages" on the bare
// UnboundedMailbox with more than one party enqueueing system envelopes. One sender enqueues a system envelope S and,
// after that Enqueue has returned, a user envelope U (the shape of Kill() followed by Tell()); other senders enqueue
// system and user envelopes of their own at the same time. S was accepted before U existed, so the handler must see S
// before U - whatever the other senders are in the middle of.

func init() {
	register(&Workload{Prop: "C02", Variant: "system-first", Horizon: time.Minute, MaxSteps: 30000, MaxG: 256, Spin: 2000, PCTLen: 120, Weight: 12, Body: c02SystemFirst})
}

type c02sfState struct {
	mu    sync.Mutex
	order []int
}

func (s *c02sfState) HandleEnvelop(envelop vivid.Envelop) {
	vsimrt.Progress()
	s.mu.Lock()
	s.order = append(s.order, envelop.(*c01Env).id)
	s.mu.Unlock()
	vsimrt.Yield()
}

func c02SystemFirst(r *R) {
	st := &c02sfState{}
	mb := mailbox.NewUnboundedMailbox([]int64{2, 4, 256}[r.Choose(3)], st)
	id := 0
	env := func(system bool) *c01Env {
		id++
		return &c01Env{id: id, system: system}
	}
	// mostly the smallest configuration that can show a miscount (one sender of each kind, one envelope each): every further
	// party dilutes the few orders that matter
	nPairs, nNoiseS, nNoiseU := 1, 1, 1
	small := r.Chance(60)
	focus := !small && r.Chance(30)
	if !small {
		nPairs = 1 + r.Choose(3)  // senders of (S, then U), one to three times in a row
		nNoiseS = 1 + r.Choose(3) // senders of system envelopes only
		nNoiseU = 1 + r.Choose(2) // senders of user envelopes only
	}
	if focus {
		// one kill-then-tell sender repeating its pair, its user envelopes the only ones (so each is at the head of the user
		// queue when it is there), and several parties in the middle of enqueueing system envelopes at any time
		nPairs, nNoiseS, nNoiseU = 1, 2+r.Choose(3), 0
	}
	type pair struct{ s, u *c01Env }
	var pairs []pair
	var wg sync.WaitGroup
	for i := 0; i < nPairs; i++ {
		var mine []pair
		n := 1
		if !small {
			n = 1 + r.Choose(3)
		}
		if focus {
			n = 3 + r.Choose(3)
		}
		for k := 0; k < n; k++ {
			mine = append(mine, pair{env(true), env(false)})
		}
		pairs = append(pairs, mine...)
		wg.Add(1)
		vsimrt.Go("c02sf.pair", func() {
			defer wg.Done()
			for _, p := range mine {
				mb.Enqueue(p.s)
				mb.Enqueue(p.u)
			}
		})
	}
	for i := 0; i < nNoiseS; i++ {
		n := 1
		if !small {
			n = 1 + r.Choose(3)
		}
		if focus {
			n = 2 + r.Choose(3)
		}
		var es []*c01Env
		for k := 0; k < n; k++ {
			es = append(es, env(true))
		}
		wg.Add(1)
		vsimrt.Go("c02sf.system-noise", func() {
			defer wg.Done()
			for _, e := range es {
				mb.Enqueue(e)
			}
		})
	}
	for i := 0; i < nNoiseU; i++ {
		n := 1
		if !small {
			n = 1 + r.Choose(3)
		}
		var es []*c01Env
		for k := 0; k < n; k++ {
			es = append(es, env(false))
		}
		wg.Add(1)
		vsimrt.Go("c02sf.user-noise", func() {
			defer wg.Done()
			for _, e := range es {
				mb.Enqueue(e)
			}
		})
	}
	r.Sample(map[string]any{"kill-then-tell senders": nPairs, "system-only senders": nNoiseS, "user-only senders": nNoiseU})
	r.Waiting("senders")
	wg.Wait()
	vsimrt.Yield()
	vsimrt.Settle()
	if r.Failed() {
		return
	}
	st.mu.Lock()
	defer st.mu.Unlock()
	pos := map[int]int{}
	for i, v := range st.order {
		pos[v] = i
	}
	if len(st.order) != id {
		r.Fail("C02/system-first envelopes-handled", "%d envelopes were enqueued, %d handled: %v", id, len(st.order), st.order)
		return
	}
	for _, p := range pairs {
		if pos[p.u.id] < pos[p.s.id] {
			r.Fail("C02/user-before-earlier-system", "system envelope %d was enqueued (Enqueue had returned) before user envelope %d was, by the same sender, yet the handler saw the user envelope first; order of handling: %s (other senders were enqueueing system envelopes at the same time)", p.s.id, p.u.id, fmt.Sprint(st.order))
			return
		}
	}
	r.Count("system-first-checked")
}
