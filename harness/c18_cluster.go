//go:build vsim

package vsimharness

import (
	"fmt"
	"sort"
	"strings"
	"sync"
	"time"

	"github.com/kercylan98/vivid"
	"github.com/kercylan98/vivid/internal/cluster"
	"github.com/kercylan98/vivid/pkg/ves"
	"vsimrt/simnet"
	vsimrt "vsimrt/simrt"
)

// C18 - gossip converges: same members, same leader, exactly the live nodes (DESIGN.md 3, C18).
// C17 - view merges are monitored during the same runs (see c17_merge.go).

func init() {
	register(&Workload{Prop: "C18", Variant: "fault-free", Horizon: 4 * time.Hour, MaxSteps: 6000000, MaxG: 16384, Spin: 200000, PCTLen: 100000, Weight: 1, Body: func(r *R) { c18Run(r, false) }})
	register(&Workload{Prop: "C18", Variant: "faults", Horizon: 4 * time.Hour, MaxSteps: 6000000, MaxG: 16384, Spin: 200000, PCTLen: 100000, Weight: 3, Body: func(r *R) { c18Run(r, true) }})
	// fault-free, 2-3 nodes, full fan-out, the seed comes up last and late, detection tick as frequent as the heartbeat
	register(&Workload{Prop: "C18", Variant: "split", Horizon: 4 * time.Hour, MaxSteps: 6000000, MaxG: 16384, Spin: 200000, PCTLen: 100000, Weight: 1, Body: func(r *R) { c18Split = true; defer func() { c18Split = false }(); c18Run(r, true) }})
	register(&Workload{Prop: "C18", Variant: "islands", Horizon: 4 * time.Hour, MaxSteps: 6000000, MaxG: 16384, Spin: 200000, PCTLen: 100000, Weight: 1, Body: func(r *R) { c18Islands = true; defer func() { c18Islands = false }(); c18Run(r, false) }})
	register(&Workload{Prop: "C18", Variant: "late-join", Horizon: 4 * time.Hour, MaxSteps: 6000000, MaxG: 16384, Spin: 200000, PCTLen: 100000, Weight: 1, Body: func(r *R) { c18LateJoin = true; defer func() { c18LateJoin = false }(); c18Run(r, false) }})
}

// c18Split narrows c18Run to one scenario: full fan-out, no other fault than one split of the cluster that lasts longer than
// it takes both sides to remove each other; side B has no seed and at least two nodes.
var c18Split bool

// c18Islands narrows c18Run to self-seeded islands: seed A lists both seeds, seed B lists only itself (or nobody) and comes
// up later with its own joiners; nobody of A's island is in B's view and the reverse. What unites them is that A keeps
// gossiping to the configured seed B whether or not B is a member. Full fan-out, no faults.
var c18Islands bool

// c18LateJoin narrows c18Run to the late-join scenario (set only for the duration of one run of that variant; runs of one
// worker process are sequential).
var c18LateJoin bool

type cEvt struct {
	at   time.Duration
	kind string // leader / members
	info string
	iAm  bool
}

type CNode struct {
	*RNode
	idx     int
	nodeID  string
	cmu     sync.Mutex
	evts    []cEvt
	running bool
	opts    []vivid.ClusterOption
}

type c18Cfg struct {
	n         int
	seeds     []string
	interval  time.Duration
	fdTimeout time.Duration
	confirm   time.Duration
	fanout    int
	strategy  int
	maxSkew   time.Duration
	seedsFor  map[int][]string // per-node seed lists (islands); nil: every node uses seeds
}

func c18Addr(i int) string { return fmt.Sprintf("127.0.0.1:%d", 9301+i) }

func c18StartNode(r *R, nw *simnet.Net, cfg *c18Cfg, idx, tag int, nodeID string, t0 time.Time) *CNode {
	seeds := cfg.seeds
	if cfg.seedsFor != nil {
		seeds = cfg.seedsFor[idx]
	}
	opts := []vivid.ClusterOption{vivid.WithClusterSeeds(seeds), vivid.WithClusterDiscoveryInterval(cfg.interval), vivid.WithClusterFailureDetectionTimeout(cfg.fdTimeout),
		vivid.WithClusterSuspectConfirmDuration(cfg.confirm), vivid.WithClusterMaxDiscoveryTargetsPerTick(cfg.fanout), vivid.WithClusterNodeID(nodeID),
		vivid.WithClusterVersionConcurrentStrategy(vivid.VersionConcurrentStrategy(cfg.strategy))}
	if cfg.maxSkew > 0 {
		opts = append(opts, vivid.WithClusterMaxClockSkew(cfg.maxSkew))
	}
	cn := &CNode{idx: idx, nodeID: nodeID, running: true, opts: opts}
	cn.RNode = StartRNode(r, nw, tag, c18Addr(idx), RNodeOpt{ReconnectLimit: 2, InitialDelay: 100 * time.Millisecond, MaxDelay: time.Second, Cluster: opts})
	if r.Failed() {
		return cn
	}
	cn.Do(func() {
		_, _ = cn.Sys.ActorOf(vivid.ActorFN(func(ctx vivid.ActorContext) {
			switch m := ctx.Message().(type) {
			case *vivid.OnLaunch:
				ctx.EventStream().Subscribe(ctx, ves.ClusterLeaderChangedEvent{})
				ctx.EventStream().Subscribe(ctx, ves.ClusterMembersChangedEvent{})
			case ves.ClusterLeaderChangedEvent:
				cn.cmu.Lock()
				cn.evts = append(cn.evts, cEvt{at: time.Since(t0), kind: "leader", info: m.LeaderAddr, iAm: m.IAmLeader})
				cn.cmu.Unlock()
			case ves.ClusterMembersChangedEvent:
				cn.cmu.Lock()
				cn.evts = append(cn.evts, cEvt{at: time.Since(t0), kind: "members", info: fmt.Sprintf("%v removed=%v", m.Members, m.Removed)})
				cn.cmu.Unlock()
			}
		}), vivid.WithActorName("cobs"))
	})
	return cn
}

type c18View struct {
	members map[string]string // address -> "nodeID/gen=..,status"
	leader  string
	err     error
}

func (cn *CNode) view() c18View {
	var out c18View
	cn.Do(func() {
		ref, _ := cn.Sys.CreateRef(cn.Addr, "/@cluster")
		cn.r.Waiting("GetViewRequest of " + cn.Addr)
		reply, err := cn.Sys.Ask(ref, &cluster.GetViewRequest{}, 10*time.Second).Result()
		vsimrt.Yield()
		if err != nil {
			out.err = err
			return
		}
		resp, ok := reply.(*cluster.GetViewResponse)
		if !ok || resp.View == nil {
			out.err = fmt.Errorf("unexpected reply %T", reply)
			return
		}
		out.members = map[string]string{}
		for id, m := range resp.View.Members {
			out.members[m.Address+"#"+id] = fmt.Sprintf("gen=%d status=%s", m.Generation, m.Status)
		}
		out.leader = cluster.ComputeLeaderAddr(resp.View)
	})
	return out
}

func c18Run(r *R, faults bool) {
	t0 := time.Now()
	nw := simnet.New()
	nw.ChunkMode = simnet.ChunkMixed
	if r.Chance(50) {
		nw.MinLatency, nw.Jitter = 200*time.Microsecond, 5*time.Millisecond
	}
	cfg := &c18Cfg{n: 2 + r.Choose(6)}
	if r.Tier == "quick" && cfg.n > 5 {
		cfg.n = 2 + r.Choose(4)
	}
	cfg.interval = []time.Duration{500 * time.Millisecond, time.Second, 2 * time.Second}[r.Choose(3)]
	cfg.fdTimeout = []time.Duration{4 * time.Second, 8 * time.Second, 20 * time.Second, 40 * time.Second}[r.Choose(4)]
	cfg.confirm = []time.Duration{0, 2 * time.Second, 10 * time.Second}[r.Choose(3)]
	cfg.fanout = []int{1, 2, 20, 20, 20}[r.Choose(5)]
	cfg.strategy = r.Choose(3)
	if r.Chance(30) {
		cfg.maxSkew = 5 * time.Second
	}
	nSeeds := 1
	if cfg.n >= 3 && r.Chance(40) {
		nSeeds = 2
	}
	if c18Split {
		cfg.n, nSeeds = 3+r.Choose(3), 1
		if cfg.n >= 4 && r.Chance(40) {
			nSeeds = 2
		}
		cfg.fanout = 20
		cfg.fdTimeout = []time.Duration{4 * time.Second, 8 * time.Second}[r.Choose(2)]
	}
	if c18Islands {
		cfg.n, nSeeds = 3+r.Choose(3), 2
		cfg.fanout = 20
	}
	if c18LateJoin {
		cfg.n, nSeeds = 2+r.Choose(2), 1
		cfg.fanout = 20
		cfg.interval, cfg.fdTimeout = 2*time.Second, 4*time.Second
		if r.Chance(30) {
			cfg.interval, cfg.fdTimeout = time.Second, 4*time.Second
		}
	}
	for i := 0; i < nSeeds; i++ {
		cfg.seeds = append(cfg.seeds, c18Addr(i))
	}
	desc := map[string]any{"nodes": cfg.n, "seeds": nSeeds, "gossip_interval": cfg.interval.String(), "failure_detection_timeout": cfg.fdTimeout.String(), "suspect_confirm": cfg.confirm.String(),
		"fanout": cfg.fanout, "concurrent_strategy": cfg.strategy, "max_clock_skew": cfg.maxSkew.String(), "latency": nw.MinLatency.String()}
	c17Install(r) // merge monitors (C17) run in every cluster simulation
	nodes := make([]*CNode, cfg.n)
	nextTag := 1
	// start order: usually seeds first; in some runs a random order, so that a node comes up before any of its seeds
	// and joins through the join-retry path (a start order is not a fault: it also happens in the fault-free variant)
	order := make([]int, cfg.n)
	for i := range order {
		order[i] = i
	}
	lateSeed := false
	islandGap := time.Duration(0)
	if c18Islands {
		// node0 = seed A (seeds: A and B), node1 = seed B (seeds: itself, or none), the others join A (even index) or B (odd)
		cfg.seedsFor = map[int][]string{0: {c18Addr(0), c18Addr(1)}, 1: {c18Addr(1)}}
		if r.Chance(40) {
			cfg.seedsFor[1] = nil
		}
		order = order[:0]
		for i := 0; i < cfg.n; i += 2 {
			order = append(order, i)
		}
		for i := 1; i < cfg.n; i += 2 {
			order = append(order, i)
		}
		for i := 2; i < cfg.n; i++ {
			cfg.seedsFor[i] = []string{c18Addr(i % 2)}
		}
		// B's island comes up at once, or only after A's first gossip to B's address has long been given up
		islandGap = []time.Duration{0, 3 * time.Second, 25 * time.Second, 40 * time.Second}[r.Choose(4)]
		desc["islands"] = fmt.Sprintf("A: seeds %v; B: seeds %v, started %v after A's island", cfg.seedsFor[0], cfg.seedsFor[1], islandGap)
		r.Count("self-seeded-islands")
	}
	if !c18Islands && (c18LateJoin || r.Chance(30)) {
		for i := cfg.n - 1; i > 0; i-- {
			j := r.Choose(i + 1)
			order[i], order[j] = order[j], order[i]
		}
		if c18LateJoin {
			// the seed (index 0) last
			for i, v := range order {
				if v == 0 {
					order[i], order[cfg.n-1] = order[cfg.n-1], order[i]
				}
			}
		}
		lateSeed = order[0] >= nSeeds
		if lateSeed {
			r.Count("node-started-before-its-seeds")
			// half of these runs use the tightest timing the options allow: a failure-detection tick (timeout/2) as
			// frequent as the gossip round, so that a member whose LastSeen is stale when it gets in is judged before
			// its next heartbeat arrives
			if r.Chance(50) {
				cfg.interval, cfg.fdTimeout = 2*time.Second, 4*time.Second
				desc["gossip_interval"], desc["failure_detection_timeout"] = cfg.interval.String(), cfg.fdTimeout.String()
				r.Count("late-join-with-tight-failure-detection")
			}
		}
	}
	desc["start_order"] = fmt.Sprint(order)
	for k, i := range order {
		if k > 0 {
			vsimrt.Sleep(time.Duration(r.Choose(1500)) * time.Millisecond) // timer phase offsets between nodes
			if c18Islands && i == 1 {
				vsimrt.Sleep(islandGap)
			}
			if lateSeed && i < nSeeds && (c18LateJoin || r.Chance(50)) {
				// the seed comes up several seconds late: the waiting joiners' node states are older than the timeout
				vsimrt.Sleep(time.Duration(2+r.Choose(9)) * time.Second)
			}
		}
		if faults && r.Chance(25) {
			vsimrt.SetSkew(nextTag, time.Duration(r.Choose(4000)-2000)*time.Millisecond)
			r.Count("fault:clock-skew")
		}
		nodes[i] = c18StartNode(r, nw, cfg, i, nextTag, fmt.Sprintf("node-%d", i), t0)
		nextTag++
		if r.Failed() {
			return
		}
	}
	var fdesc []string
	departures := 0               // nodes that left the membership for good (crash, leave, restart under a new id)
	departed := map[string]bool{} // their identities (address#node id) and addresses
	if lateSeed {
		// join retries back off 2 s, 4 s, 8 s, ...: give the late joiners time to get in before anything is judged
		fdesc = append(fdesc, fmt.Sprintf("start order %v (a node started before its seeds and joined by retry)", order))
		vsimrt.Sleep(45 * time.Second)
	}
	if faults {
		phase := time.Duration(30+r.Choose(91)) * time.Second
		end := time.Since(t0) + phase
		nF := 1 + r.Choose(6)
		if c18Split {
			nF = 1
		}
		for f := 0; f < nF && time.Since(t0) < end; f++ {
			vsimrt.Sleep(time.Duration(1+r.Choose(15)) * time.Second)
			// choose a fault; seeds are never crashed or stopped (the property quantifies over non-seed nodes)
			var nonSeed []int
			for i := nSeeds; i < cfg.n; i++ {
				nonSeed = append(nonSeed, i)
			}
			kind := r.ChooseF(8)
			if len(nonSeed) == 0 && (kind == 2 || kind == 3) {
				kind = 0
			}
			if kind == 7 && len(nonSeed) < 2 {
				kind = 1
			}
			if c18Split {
				kind = 7
			}
			switch kind {
			case 7: // the cluster splits in two for longer than it takes both sides to give each other up, then heals
				// side B has no seed and at least two nodes: after the heal the only bridge between the sides is that configured
				// seeds stay gossip targets whether or not they are members
				k := nSeeds + r.ChooseF(cfg.n-nSeeds-1)
				d := 2*cfg.fdTimeout + 2*cfg.confirm + 3*cfg.interval + time.Duration(r.ChooseF(10))*time.Second
				reset := r.ChooseF(2) == 0
				var ta, tb []int
				for i, n := range nodes {
					if i < k {
						ta = append(ta, n.Tag)
					} else {
						tb = append(tb, n.Tag)
					}
				}
				for _, a := range ta {
					for _, b := range tb {
						nw.Partition(a, b, reset)
					}
				}
				fdesc = append(fdesc, fmt.Sprintf("t=%v split nodes[0..%d) | nodes[%d..%d) for %v (reset=%v): longer than failure detection + confirmation", time.Since(t0).Round(time.Second), k, k, cfg.n, d, reset))
				vsimrt.Sleep(d)
				for _, a := range ta {
					for _, b := range tb {
						nw.Heal(a, b)
					}
				}
				r.Count("fault:long-split")
			case 0: // connection cuts between two nodes
				a, b := r.ChooseF(cfg.n), r.ChooseF(cfg.n)
				if a != b && nodes[a].running && nodes[b].running {
					k := nw.CutAll(nodes[a].Tag, nodes[b].Tag)
					fdesc = append(fdesc, fmt.Sprintf("t=%v cut %d connections node%d<->node%d", time.Since(t0).Round(time.Second), k, a, b))
				}
			case 1: // partition and heal
				a, b := r.ChooseF(cfg.n), r.ChooseF(cfg.n)
				if a != b {
					reset := r.ChooseF(2) == 0
					nw.Partition(nodes[a].Tag, nodes[b].Tag, reset)
					d := time.Duration(1+r.ChooseF(30)) * time.Second
					fdesc = append(fdesc, fmt.Sprintf("t=%v partition node%d|node%d for %v (reset=%v)", time.Since(t0).Round(time.Second), a, b, d, reset))
					ta, tb := nodes[a].Tag, nodes[b].Tag
					vsimrt.Go("c18.heal", func() {
						vsimrt.Sleep(d)
						nw.Heal(ta, tb)
					})
				}
			case 2: // crash and restart of a non-seed node (same address; same node id => new generation, or a new id)
				i := nonSeed[r.ChooseF(len(nonSeed))]
				if nodes[i].running {
					vsimrt.Freeze(nodes[i].Tag)
					nw.CrashNode(nodes[i].Tag)
					nodes[i].running = false
					down := time.Duration(1+r.ChooseF(20)) * time.Second
					if cfg.confirm > 0 && r.ChooseF(2) == 0 {
						// come back while the peers hold the old incarnation as Suspect (after the timeout, before the confirmation)
						down = cfg.fdTimeout + cfg.confirm/2 + time.Duration(r.ChooseF(1000))*time.Millisecond
						r.Count("restart-while-suspected")
					}
					newID := nodes[i].nodeID
					if r.ChooseF(2) == 0 {
						newID = fmt.Sprintf("node-%d-r%d", i, nextTag)
						departures++
						departed[nodes[i].Addr+"#"+nodes[i].nodeID], departed[nodes[i].Addr] = true, true
					}
					fdesc = append(fdesc, fmt.Sprintf("t=%v crash node%d, restart after %v as %s", time.Since(t0).Round(time.Second), i, down, newID))
					vsimrt.Sleep(down)
					nodes[i] = c18StartNode(r, nw, cfg, i, nextTag, newID, t0)
					nextTag++
					if r.Failed() {
						return
					}
					r.Count("fault:crash-restart")
				}
			case 3: // graceful leave
				i := nonSeed[r.ChooseF(len(nonSeed))]
				if nodes[i].running {
					fdesc = append(fdesc, fmt.Sprintf("t=%v node%d leaves gracefully (Stop)", time.Since(t0).Round(time.Second), i))
					if err := nodes[i].Stop(); err != nil {
						r.Note("Stop of node%d returned %v", i, err)
					}
					nw.CrashNode(nodes[i].Tag) // the process exits
					nodes[i].running = false
					departures++
					departed[nodes[i].Addr+"#"+nodes[i].nodeID], departed[nodes[i].Addr] = true, true
					r.Count("fault:graceful-leave")
				}
			case 4: // slow node for a while
				i := r.ChooseF(cfg.n)
				if nodes[i].running {
					vsimrt.SlowDown(nodes[i].Tag, 60+r.ChooseF(35))
					d := time.Duration(1+r.ChooseF(10)) * time.Second
					fdesc = append(fdesc, fmt.Sprintf("t=%v node%d slow for %v", time.Since(t0).Round(time.Second), i, d))
					tag := nodes[i].Tag
					vsimrt.Go("c18.unslow", func() {
						vsimrt.Sleep(d)
						vsimrt.SlowDown(tag, 0)
					})
					r.Count("fault:slow-node")
				}
			case 5: // clock jump
				i := r.ChooseF(cfg.n)
				j := time.Duration(r.ChooseF(20000)-10000) * time.Millisecond
				vsimrt.SetSkew(nodes[i].Tag, j)
				fdesc = append(fdesc, fmt.Sprintf("t=%v node%d clock jumps to skew %v", time.Since(t0).Round(time.Second), i, j))
				r.Count("fault:clock-jump")
			case 6: // crash without restart
				if len(nonSeed) > 0 {
					i := nonSeed[r.ChooseF(len(nonSeed))]
					if nodes[i].running {
						vsimrt.Freeze(nodes[i].Tag)
						nw.CrashNode(nodes[i].Tag)
						nodes[i].running = false
						departures++
						departed[nodes[i].Addr+"#"+nodes[i].nodeID], departed[nodes[i].Addr] = true, true
						fdesc = append(fdesc, fmt.Sprintf("t=%v crash node%d for good", time.Since(t0).Round(time.Second), i))
						r.Count("fault:crash")
					}
				}
			}
		}
		// faults stop: heal everything, no slow nodes, clocks back in sync
		vsimrt.Sleep(35 * time.Second) // outlasts every pending heal / unslow
		for i := 0; i < nextTag; i++ {
			for j := i + 1; j < nextTag; j++ {
				nw.Heal(i, j)
			}
			vsimrt.SlowDown(i, 0)
			vsimrt.SetSkew(i, 0)
		}
	}
	desc["faults"] = fdesc
	r.Sample(desc)
	quiet := 3*(cfg.fdTimeout+cfg.confirm) + 30*time.Second
	quietStart := time.Since(t0)
	r.Waiting("quiet phase")
	vsimrt.Sleep(quiet)
	vsimrt.Settle()
	if r.Failed() {
		return
	}
	netFaultCounts(r, nw)
	if r.Prop == "C17" {
		// the cluster run only produces reachable views for the merge monitors; convergence is C18's business
		c17Post(r)
		return
	}
	// ---- oracle ----
	var live []*CNode
	want := map[string]bool{}
	for _, n := range nodes {
		if n.running {
			live = append(live, n)
			want[n.Addr+"#"+n.nodeID] = true
		}
	}
	wantList := sortedKeysB(want)
	// Every symptom of the run is collected; a symptom is "explained" when one of the two recorded protocol weaknesses
	// (known_findings.json) accounts for it on this run's configuration:
	//   partial-fanout  (fan-out < nodes-1): healthy members are suspected/removed/re-added for ever - explains every
	//                   symptom except a departed identity that is still a member
	//   after-departure (a node left for good): the departed identity is re-introduced by peers - explains only symptoms
	//                   that name a departed identity (it is still a member; membership changes that mention it) or a
	//                   running node on the address of a departed identity (restart under a new node id: the library
	//                   refreshes LastSeen/Suspect by address and hits the stale entry)
	// The first unexplained symptom is reported as it is; only if every symptom is explained the run is reported under the
	// class suffix of the weakness, which the driver matches against the known findings.
	partial := cfg.fanout < cfg.n-1
	type symptom struct {
		cls, msg, suffix string
	}
	var syms []symptom
	add := func(cls string, byPartial, byDeparture bool, format string, args ...any) {
		suffix := ""
		if partial && byPartial {
			suffix += " partial-fanout"
		}
		if departures > 0 && byDeparture {
			suffix += " after-departure"
		}
		syms = append(syms, symptom{cls, fmt.Sprintf(format, args...), suffix})
	}
	mentionsDeparted := func(text string) bool {
		for k := range departed {
			if !strings.Contains(k, "#") && strings.Contains(text, k) {
				return true
			}
		}
		return false
	}
	leaders := 0
	leaderAddrs := map[string]bool{}
	cfgDesc := fmt.Sprintf("%d nodes, gossip every %v, failure-detection timeout %v (+%v confirm), fan-out %d; faults: %v; quiet phase %v", cfg.n, cfg.interval, cfg.fdTimeout, cfg.confirm, cfg.fanout, fdesc, quiet)
	for _, n := range live {
		v := n.view()
		if v.err != nil {
			r.Fail("C18/view-unavailable", "node %s did not answer GetViewRequest after the quiet phase: %v (%s)", n.Addr, v.err, cfgDesc)
			return
		}
		got := map[string]bool{}
		for k := range v.members {
			got[k] = true
		}
		gotList := sortedKeysB(got)
		if strings.Join(gotList, ",") != strings.Join(wantList, ",") {
			var missing, extra []string
			for _, k := range wantList {
				if !got[k] {
					missing = append(missing, k)
				}
			}
			extraAllDeparted := true
			for _, k := range gotList {
				if !want[k] {
					extra = append(extra, k)
					if !departed[k] {
						extraAllDeparted = false
					}
				}
			}
			if len(missing) > 0 {
				// a running node whose address is shared with a departed identity that is still a member (restart under a
				// new id): refreshes and look-ups by address hit the stale entry - a consequence of the missing tombstones
				missingShareAddr := true
				for _, k := range missing {
					if !departed[strings.SplitN(k, "#", 2)[0]] {
						missingShareAddr = false
					}
				}
				add("C18/membership-wrong live-node-missing", true, missingShareAddr, "after the quiet phase node %s sees members %v but the running nodes are %v (missing %v, extra %v). %s", n.Addr, gotList, wantList, missing, extra, cfgDesc)
			}
			if len(extra) > 0 {
				add("C18/membership-wrong dead-node-still-member", false, extraAllDeparted, "after the quiet phase node %s sees members %v but the running nodes are %v (missing %v, extra %v). %s", n.Addr, gotList, wantList, missing, extra, cfgDesc)
			}
		}
		for _, k := range sortedKeysS(v.members) {
			st := v.members[k]
			if want[k] && !strings.Contains(st, "status=up") {
				add("C18/member-not-up", true, departed[strings.SplitN(k, "#", 2)[0]], "node %s sees running member %s as %s after the quiet phase. %s", n.Addr, k, st, cfgDesc)
			}
		}
		leaderAddrs[v.leader] = true
		n.cmu.Lock()
		last := cEvt{}
		for _, e := range n.evts {
			if e.kind == "leader" {
				last = e
			}
		}
		lateThird := quietStart + quiet*2/3
		for _, e := range n.evts {
			if e.at > lateThird {
				for i, e2 := range n.evts {
					if i >= len(n.evts)-40 {
						r.Note("%s t=%v %s %s", n.Addr, e2.at, e2.kind, e2.info)
					}
				}
				add("C18/still-changing kind="+e.kind, true, e.kind == "members" && mentionsDeparted(e.info), "node %s announced a %s change (%s) at %v, in the last third of the quiet phase (which started at %v and lasted %v). %s", n.Addr, e.kind, e.info, e.at, quietStart, quiet, cfgDesc)
				break
			}
		}
		n.cmu.Unlock()
		// "considers itself leader": the node's own computation over its view; its last ClusterLeaderChangedEvent (if it
		// published one after the observer subscribed) must agree with it
		if v.leader == n.Addr {
			leaders++
		}
		if last.kind == "leader" && last.iAm != (v.leader == n.Addr) {
			add("C18/leader-event-stale", true, false, "node %s computes leader %s but its last ClusterLeaderChangedEvent (at %v) said leader=%s IAmLeader=%v. %s", n.Addr, v.leader, last.at, last.info, last.iAm, cfgDesc)
		}
	}
	if len(leaderAddrs) != 1 {
		add("C18/leaders-disagree", true, false, "the running nodes compute different leaders: %v. %s", sortedKeysB(leaderAddrs), cfgDesc)
	} else if leaders != 1 {
		add(fmt.Sprintf("C18/self-declared-leaders=%d", leaders), true, false, "%d running nodes compute themselves as leader. %s", leaders, cfgDesc)
	}
	if len(syms) > 0 {
		for _, n := range live {
			v := n.view()
			for _, k := range sortedKeysS(v.members) {
				r.Note("final view of %s: %s %s (leader %s)", n.Addr, k, v.members[k], v.leader)
			}
		}
	}
	for _, sy := range syms {
		if sy.suffix == "" {
			r.Fail(sy.cls, "%s", sy.msg)
			return
		}
	}
	if len(syms) > 0 {
		r.Fail(syms[0].cls+syms[0].suffix, "%s", syms[0].msg)
		return
	}
	r.CountN("live-nodes-checked", len(live))
	c17Post(r)
}

func sortedKeysB(m map[string]bool) []string {
	out := make([]string, 0, len(m))
	for k := range m {
		out = append(out, k)
	}
	sort.Strings(out)
	return out
}

func sortedKeysS(m map[string]string) []string {
	out := make([]string, 0, len(m))
	for k := range m {
		out = append(out, k)
	}
	sort.Strings(out)
	return out
}
