//go:build vsim

package vsimharness

import (
	"errors"
	"fmt"
	"sort"
	"strings"
	"sync"
	"sync/atomic"
	"time"

	"github.com/kercylan98/vivid"
	"github.com/kercylan98/vivid/internal/mailbox"
	"github.com/kercylan98/vivid/pkg/ves"
	vsimrt "vsimrt/simrt"
)

// C03 - no user message is silently lost: processed, stashed or dead-lettered exactly once (DESIGN.md 3, C03).

func init() {
	register(&Workload{Prop: "C03", Variant: "accounting", Horizon: 20 * time.Minute, MaxSteps: 200000, MaxG: 4096, Spin: 5000, PCTLen: 3000, Body: c03Accounting})
}

var c03Decisions = []vivid.SupervisionDecision{vivid.SupervisionDecisionRestart, vivid.SupervisionDecisionStop, vivid.SupervisionDecisionResume,
	vivid.SupervisionDecisionGracefulRestart, vivid.SupervisionDecisionGracefulStop, vivid.SupervisionDecisionStop, vivid.SupervisionDecisionRestart}

func c03Accounting(r *R) {
	decide := func(n int, ctx vivid.SupervisionContext) vivid.SupervisionDecision {
		return c03Decisions[vsimrt.Choose(vsimrt.KWork, len(c03Decisions))]
	}
	// supervisors below the root also escalate (a quarter of their decisions): the decision is then taken one or two
	// levels up and has to reach the actor that failed (added after seeded wave 10)
	decideMid := func(n int, ctx vivid.SupervisionContext) vivid.SupervisionDecision {
		if vsimrt.Choose(vsimrt.KWork, 4) == 0 {
			r.Count("decision-escalated")
			return vivid.SupervisionDecisionEscalate
		}
		return c03Decisions[vsimrt.Choose(vsimrt.KWork, len(c03Decisions))]
	}
	w := newWorld(r, WorldOpt{MakeStrategy: func(w *World) vivid.SupervisionStrategy { return vivid.OneForOneStrategy(w.NewMaker("system", decide)) }})
	if r.Failed() {
		return
	}
	var zmu sync.Mutex
	zombies := map[string]bool{}
	failRestart := map[string]bool{} // path -> the next Restarted hook fails (zombie)
	restartedHook := func(p *Probe) error {
		zmu.Lock()
		f := failRestart[p.Path]
		if f {
			zombies[p.Path] = true
			failRestart[p.Path] = false
		}
		zmu.Unlock()
		if f {
			r.Count("zombie-created")
			return errors.New("restarted hook refuses")
		}
		return nil
	}
	nChildren := 1 + r.Choose(3)
	aM := w.NewMaker("a", decideMid)
	top := &Spec{Name: "a", Strategy: vivid.OneForOneStrategy(aM), Restarted: restartedHook}
	paths := []string{"/a"}
	for i := 0; i < nChildren; i++ {
		c := &Spec{Name: fmt.Sprintf("b%d", i), Provider: r.Chance(50), Restarted: restartedHook}
		if r.Chance(30) {
			c.Children = []*Spec{{Name: "g", Restarted: restartedHook}}
			c.Strategy = vivid.OneForOneStrategy(w.NewMaker(c.Name, decideMid))
			paths = append(paths, "/a/"+c.Name+"/g")
		}
		top.Children = append(top.Children, c)
		paths = append(paths, "/a/"+c.Name)
	}
	var refMu sync.Mutex
	origRefs := map[string]vivid.ActorRef{}
	top.OnLaunch = func(ctx vivid.ActorContext, p *Probe) {
		kids := ctx.Children() // never call into the system under test while holding a harness lock (it may park)
		refMu.Lock()
		for _, k := range kids {
			origRefs[k.GetPath()] = k
		}
		refMu.Unlock()
	}
	aRef, err := w.Spawn(top)
	if err != nil {
		r.Fail("C03/harness", "spawn: %v", err)
		return
	}
	refMu.Lock()
	origRefs["/a"] = aRef
	refMu.Unlock()
	vsimrt.Settle()
	ghosts := []string{"/a/ghost", "/nobody", "/a/b0/ghost"}

	refFor := func(path string) (vivid.ActorRef, string) {
		how := provenances[r.Choose(len(provenances))]
		refMu.Lock()
		orig := origRefs[path]
		refMu.Unlock()
		if orig == nil && (how == "orig" || how == "clone") {
			how = "parse"
		}
		return w.RefBy(how, orig, path), how
	}
	send := func(sender string, seq int, path, state string, do func(ctx vivid.ActorContext, p *Probe)) {
		ref, how := refFor(path)
		c := w.NewCmd(sender, seq, do)
		w.noteSent(c.ID, path, how, state, "main")
		r.Count("sent via " + how)
		w.Tell(ref, c)
	}

	nOps := 5 + r.Choose(14)
	nSenders := 1 + r.Choose(3)
	type op struct {
		kind   int
		target string
		n, k   int
	}
	var draining atomic.Bool
	kinds := []string{"tell", "tell", "burst-with-failure", "kill+tells", "tell-ghost", "stash", "unstash", "make-zombie", "actor-tell", "tell-terminated"}
	plan := make([][]op, nSenders)
	var odesc []string
	for i := 0; i < nOps; i++ {
		o := op{kind: r.Choose(len(kinds)), target: paths[r.Choose(len(paths))], n: 2 + r.Choose(6)}
		o.k = r.Choose(o.n)
		plan[i%nSenders] = append(plan[i%nSenders], o)
		odesc = append(odesc, kinds[o.kind]+"->"+o.target)
	}
	r.Sample(map[string]any{"children": nChildren, "ops": odesc, "senders": nSenders})
	var wg sync.WaitGroup
	for si := 0; si < nSenders; si++ {
		si := si
		wg.Add(1)
		vsimrt.Go("c03.sender", func() {
			defer wg.Done()
			name := fmt.Sprintf("s%d", si)
			seq := 0
			for _, o := range plan[si] {
				switch o.kind {
				case 0, 1:
					send(name, seq, o.target, "any", nil)
					seq++
				case 2: // burst with a failing message at position k
					r.Count("burst-with-failure")
					for j := 0; j < o.n; j++ {
						if j == o.k {
							send(name, seq, o.target, "any", func(ctx vivid.ActorContext, p *Probe) { panic("scripted failure") })
						} else {
							send(name, seq, o.target, "any", nil)
						}
						seq++
					}
				case 3: // kill racing tells
					if o.target == "/a" {
						send(name, seq, o.target, "any", nil)
						seq++
						continue
					}
					r.Count("kill-racing-tells")
					poison := r.Chance(50)
					for j := 0; j < o.n; j++ {
						if j == o.k {
							ref, _ := refFor(o.target)
							w.Sys.Kill(ref, poison, "scripted")
						}
						send(name, seq, o.target, "stopping", nil)
						seq++
					}
				case 4:
					r.Count("tell-never-existed")
					send(name, seq, ghosts[r.Choose(len(ghosts))], "never-existed", nil)
					seq++
				case 5:
					r.Count("stash")
					send(name, seq, o.target, "any", func(ctx vivid.ActorContext, p *Probe) {
						if draining.Load() {
							return // the final drain hands every stashed message back: it is processed for good this time
						}
						p.record(ctx, Event{Kind: "Stashed", ID: ctx.Message().(*Cmd).ID})
						ctx.Stash()
					})
					seq++
				case 6:
					n := r.Choose(4)
					send(name, seq, o.target, "any", func(ctx vivid.ActorContext, p *Probe) {
						if n == 0 {
							ctx.Unstash()
						} else {
							ctx.Unstash(n)
						}
					})
					seq++
				case 7: // next restart of the target turns it into a zombie
					if o.target == "/a" {
						continue
					}
					zmu.Lock()
					failRestart[o.target] = true
					zmu.Unlock()
					send(name, seq, o.target, "any", func(ctx vivid.ActorContext, p *Probe) { panic("failure before zombie") })
					seq++
				case 8: // an actor tells another actor
					tgt := paths[r.Choose(len(paths))]
					tref, how := refFor(tgt)
					inner := w.NewCmd(name+"/via:"+o.target, seq, nil)
					send(name, seq, o.target, "any", func(ctx vivid.ActorContext, p *Probe) {
						w.noteSent(inner.ID, tgt, how, "any", "main")
						ctx.Tell(tref, inner)
					})
					seq++
				case 9: // kill, wait for termination, then tell
					if o.target == "/a" {
						continue
					}
					r.Count("tell-terminated")
					ref, _ := refFor(o.target)
					w.Sys.Kill(ref, false, "scripted")
					vsimrt.Sleep(10 * time.Millisecond)
					send(name, seq, o.target, "terminated", nil)
					seq++
					if r.Chance(40) {
						// a user message is a user message whatever its type: an actor that forwards the dead letters it collects
						// sends values of the library's own ves.DeathLetterEvent type. Told to an actor that no longer runs, such a
						// message is undeliverable like any other and is owed its dead letter.
						r.Count("tell-terminated-a-DeathLetterEvent-value")
						ref, how := refFor(o.target)
						c := w.NewCmd("dlwrap:"+name, seq, nil)
						seq++
						w.noteSent(c.ID, o.target, how, "terminated", "main")
						w.Sys.Tell(ref, ves.DeathLetterEvent{Envelope: mailbox.NewEnvelop(false, nil, ref, c), Time: vsimrt.Now()})
					}
				}
			}
		})
	}
	r.Waiting("senders")
	wg.Wait()
	vsimrt.Yield()
	vsimrt.SettleFor(2 * time.Second)
	if r.Failed() {
		return
	}
	// ---- accounting at the first quiescence ----
	evs := w.Events()
	nCmd, nStash, nDL := map[int]int{}, map[int]int{}, map[int]int{}
	for _, e := range evs {
		switch {
		case e.Kind == "Cmd":
			nCmd[e.ID]++
		case e.Kind == "Stashed":
			nStash[e.ID]++
		case e.Kind == "Evt:DeathLetter" && e.ID != 0:
			nDL[e.ID]++
		}
	}
	w.mu.Lock()
	sent := make([]*SentInfo, 0, len(w.sent))
	for _, s := range w.sent {
		sent = append(sent, s)
	}
	w.mu.Unlock()
	sort.Slice(sent, func(i, j int) bool { return sent[i].ID < sent[j].ID })
	zmu.Lock()
	zs := map[string]bool{}
	for k, v := range zombies {
		zs[k] = v
	}
	zmu.Unlock()
	for _, s := range sent {
		exempt := false
		for z := range zs {
			if s.To == z || strings.HasPrefix(s.To, z+"/") {
				exempt = true
			}
		}
		if exempt {
			r.Count("exempt-zombie-target")
			continue
		}
		c, st, dl := nCmd[s.ID], nStash[s.ID], nDL[s.ID]
		state := c03TargetState(evs, s)
		switch {
		case c == 0 && dl == 0:
			r.Fail(fmt.Sprintf("C03/lost target-state=%s ref=%s", state, refClass(s.How)), "message #%d to %s (reference obtained by %q, sent at step %d) was neither processed nor stashed nor published as a dead letter by the time the system was quiescent; target history: %s", s.ID, s.To, s.How, s.Step, c03History(evs, s.To))
			w.DumpNotes(300)
			return
		case c == 0 && dl > 1:
			r.Fail("C03/dead-letter-duplicated", "message #%d to %s was published %d times as a dead letter", s.ID, s.To, dl)
			return
		case c > 0 && (c-st > 1 || st > c):
			r.Fail("C03/processed-twice", "message #%d to %s was delivered %d times but stashed only %d times", s.ID, s.To, c, st)
			return
		case c > 0 && (st-c+1-dl < 0 || dl > 1):
			// every delivery after the first, and every dead letter, must stem from an Unstash of a stashed copy
			r.Fail(fmt.Sprintf("C03/processed-and-dead-lettered target-state=%s", state), "message #%d to %s was handed to a behaviour %d time(s) (stashed %d time(s)) and also published as a dead letter %d time(s)", s.ID, s.To, c, st, dl)
			w.DumpNotes(300)
			return
		}
		if c > 0 {
			r.Count("outcome:processed-or-stashed")
		} else {
			r.Count("outcome:dead-letter")
		}
	}
	// ---- "sits in the target's stash" is verified, not assumed: every actor is told to un-stash everything; a message that
	// was stashed k times must by now have been handed to a behaviour again, or published as a dead letter, k times
	// (a stash that was discarded - by a restart, or with its terminated owner - is a silent loss) ----
	draining.Store(true)
	for _, p := range paths {
		w.Tell(w.RefBy("create", nil, p), w.NewCmd("drain", 0, func(ctx vivid.ActorContext, p *Probe) {
			if n := ctx.StashCount(); n > 0 {
				r.Count("drained-stash")
				ctx.Unstash(n)
			}
		}))
	}
	vsimrt.SettleFor(2 * time.Second)
	if r.Failed() {
		return
	}
	evs = w.Events()
	nCmd, nStash, nDL = map[int]int{}, map[int]int{}, map[int]int{}
	for _, e := range evs {
		switch {
		case e.Kind == "Cmd":
			nCmd[e.ID]++
		case e.Kind == "Stashed":
			nStash[e.ID]++
		case e.Kind == "Evt:DeathLetter" && e.ID != 0:
			nDL[e.ID]++
		}
	}
	for _, s := range sent {
		exempt := false
		for z := range zs {
			if s.To == z || strings.HasPrefix(s.To, z+"/") {
				exempt = true
			}
		}
		c, st, dl := nCmd[s.ID], nStash[s.ID], nDL[s.ID]
		if exempt || st == 0 || c == 0 {
			continue
		}
		if (c-1)+dl < st {
			state := c03TargetState(evs, s)
			r.Fail(fmt.Sprintf("C03/stash-lost target-state=%s", state), "message #%d to %s was stashed %d time(s) but handed back to a behaviour only %d time(s) and published as a dead letter %d time(s): a stashed copy is neither in a stash (every actor was told to un-stash everything) nor processed nor a dead letter; target history: %s", s.ID, s.To, st, c-1, dl, c03History(evs, s.To))
			w.DumpNotes(300)
			return
		}
		r.Count("stashed-message-accounted-for")
	}
	// ---- after Stop: undeliverable messages are dropped without causing further work ----
	if err := w.Stop(30 * time.Second); err != nil {
		r.Fail("C03/stop-failed", "Stop returned %v; live: %s", err, describeLive(r.Sim.Live()))
		w.DumpNotes(500)
		return
	}
	vsimrt.Settle()
	for i := 0; i < 3; i++ {
		p := paths[r.Choose(len(paths))]
		ref, _ := refFor(p)
		w.Tell(ref, w.NewCmd("after-stop", i, nil))
	}
	w.Tell(w.RefBy("create", nil, "/nobody"), w.NewCmd("after-stop", 9, nil))
	r.Waiting("quiescence after Stop")
	vsimrt.SettleFor(5 * time.Second)
	for _, e := range w.Events() {
		if e.Kind == "Cmd" && strings.Contains(e.Info, "from=after-stop") {
			r.Fail("C03/processed-after-stop", "a message sent after Stop() returned was processed by %s", e.Path)
			w.DumpNotes(600)
			return
		}
	}
}

func refClass(how string) string {
	if how == "orig" {
		return "from-ActorOf"
	}
	return "by-path" // clone / parse / create: no cached mailbox
}

// c03TargetState classifies what the recorder knows about the target around the time of the send.
func c03TargetState(evs []Event, s *SentInfo) string {
	existed, killedBefore, paused := false, false, false
	for _, e := range evs {
		if e.Path == s.To && e.Kind != "Hook" {
			existed = true
		}
		if e.Step > s.Step {
			continue
		}
		if e.Path == "@obs" && e.Ref == s.To {
			switch e.Kind {
			case "Evt:ActorKilled":
				killedBefore = true
			case "Evt:ActorSpawned":
				killedBefore = false
			case "Evt:MailboxPaused":
				paused = true
			case "Evt:MailboxResumed":
				paused = false
			}
		}
	}
	switch {
	case !existed:
		return "never-existed"
	case killedBefore:
		return "terminated"
	case paused:
		return "failed-and-paused"
	}
	return "alive-or-stopping"
}

func c03History(evs []Event, path string) string {
	var h []Event
	for _, e := range evs {
		if e.Path == path || (e.Path == "@obs" && e.Ref == path) || (strings.HasPrefix(e.Path, "@maker") && e.Ref == path) {
			h = append(h, e)
		}
	}
	if len(h) > 40 {
		h = h[len(h)-40:]
	}
	return fmtEvents(h, 40)
}
