//go:build vsim

package vsimharness

import (
	"errors"
	"fmt"
	"strings"
	"sync"
	"time"

	"github.com/kercylan98/vivid"
	"github.com/kercylan98/vivid/pkg/ves"
	"vsimrt/simnet"
	vsimrt "vsimrt/simrt"
)

// C15 - location transparency: the same script is run against a local and a remote target and the observable
// outcomes are compared (DESIGN.md 3, C15).

func init() {
	register(&Workload{Prop: "C15", Variant: "differential", Horizon: 30 * time.Minute, MaxSteps: 1500000, MaxG: 8192, Spin: 40000, PCTLen: 8000, Body: c15Differential})
}

var c15Ops = []string{"Tell", "Ask/Reply", "Kill(immediate)", "Kill(poison)", "Watch+death", "Watch+Unwatch+death", "Ping", "PipeTo(success)", "PipeTo(error)", "Scheduler.Once(receiver)", "ActorSystem.Tell", "ActorSystem.Kill", "Reply-to-remote-asker", "Watch(two same-path watchers)+death", "Watch(two same-path watchers)+Unwatch(one)+death", "PipeTo(plain error result, forwarder local/remote)", "Ask/Reply(library error reply)", "Respawn(same name)+fresh-ref Tell+Ping", "Respawn(same name)+fresh-ref Tell+Ping+Kill"}

func c15Differential(r *R) {
	op := r.Index % len(c15Ops)
	codec := (r.Index/len(c15Ops))%2 == 1
	nw := simnet.New()
	nw.ChunkMode = simnet.ChunkMixed
	a := StartRNode(r, nw, 1, "127.0.0.1:9201", RNodeOpt{Codec: codec, ReconnectLimit: -1})
	if r.Failed() {
		return
	}
	b := StartRNode(r, nw, 2, "127.0.0.1:9202", RNodeOpt{Codec: codec, ReconnectLimit: -1})
	if r.Failed() {
		return
	}
	// the reason of a Kill is free text: a word, nothing, an error chain, text in any script - of any length
	reasons := []string{"c15", "", strings.Repeat("r", 255), strings.Repeat("r", 256), "wrapped: " + strings.Repeat("caused by: connection reset by peer; ", 32), strings.Repeat("终止原因", 23)}
	killReason := reasons[r.Choose(len(reasons))]
	r.Count("op:" + c15Ops[op])
	r.Sample(map[string]any{"operation": c15Ops[op], "user_codec": codec, "kill_reason_bytes": len(killReason)})
	var mu sync.Mutex
	outcome := map[string][]string{} // "local"/"remote" -> observations
	obs := func(where, what string) {
		mu.Lock()
		outcome[where] = append(outcome[where], what)
		mu.Unlock()
		vsimrt.Progress()
	}
	// killed-event observers on both nodes
	killedOn := func(n *RNode, where map[string]string) {
		n.Do(func() {
			_, _ = n.Sys.ActorOf(vivid.ActorFN(func(ctx vivid.ActorContext) {
				switch m := ctx.Message().(type) {
				case *vivid.OnLaunch:
					ctx.EventStream().Subscribe(ctx, ves.ActorKilledEvent{})
				case ves.ActorKilledEvent:
					if w, ok := where[m.ActorRef.GetPath()]; ok {
						obs(w, "target-terminated")
					}
				}
			}), vivid.WithActorName("killwatch"))
		})
	}
	killedOn(a, map[string]string{"/t-local": "local", "/fwd-local": ""})
	killedOn(b, map[string]string{"/t-remote": "remote"})
	// targets: same behaviour on both nodes
	target := func(n *RNode, name, where string) vivid.ActorRef {
		var ref vivid.ActorRef
		n.Do(func() {
			ref, _ = n.Sys.ActorOf(vivid.ActorFN(func(ctx vivid.ActorContext) {
				switch m := ctx.Message().(type) {
				case *RMsg:
					obs(where, fmt.Sprintf("target-received seq=%d intact=%v", m.Seq, string(padFor(m.Seq, len(m.Pad))) == string(m.Pad)))
					if m.Want == 1 {
						ctx.Reply(&RRep{Seq: m.Seq, By: "target"})
					}
					if m.Want == 2 {
						// an error that is not one of the library's registered errors (only ever replied to a local asker:
						// an arbitrary error value is a user payload and needs a user codec to cross the wire itself)
						ctx.Reply(errors.New("target says no"))
					}
					if m.Want == 3 {
						ctx.Reply(vivid.ErrorIllegalArgument.WithMessage("target says no"))
					}
				case *vivid.OnKill:
					obs(where, fmt.Sprintf("target-saw-OnKill poison=%v killer-set=%v reason-bytes=%d", m.Poison, m.Killer != nil, len(m.Reason)))
				}
			}), vivid.WithActorName(name))
		})
		return ref
	}
	target(a, "t-local", "local")
	target(b, "t-remote", "remote")
	// forwarders (for PipeTo): one local to A and one on B
	fwd := func(n *RNode, name, where string) {
		n.Do(func() {
			_, _ = n.Sys.ActorOf(vivid.ActorFN(func(ctx vivid.ActorContext) {
				if pr, ok := ctx.Message().(*vivid.PipeResult); ok {
					msg := "nil"
					if rep, ok := pr.Message.(*RRep); ok {
						msg = fmt.Sprintf("RRep(%d)", rep.Seq)
					} else if pr.Message != nil {
						msg = fmt.Sprintf("%T", pr.Message)
					}
					cls := "nil"
					if pr.Error != nil {
						cls = "error"
						if errors.Is(pr.Error, vivid.ErrorFutureTimeout) {
							cls = "timeout"
						}
					}
					obs(where, fmt.Sprintf("forwarder-got message=%s error=%s", msg, cls))
				}
			}), vivid.WithActorName(name))
		})
	}
	fwd(a, "fwd-local", "local")
	fwd(b, "fwd-remote", "remote")
	vsimrt.Settle()
	// the operating actor lives on A and runs the same script against both targets
	type run struct{ where, addr, tpath, fpath string }
	runs := []run{{"local", a.Addr, "/t-local", "/fwd-local"}, {"remote", b.Addr, "/t-remote", "/fwd-remote"}}
	type start struct{ r run }
	type second struct{ r run } // ops 17, 18: the target died and a namesake was created; the script goes on with a fresh reference
	a.Do(func() {
		opRef, _ := a.Sys.ActorOf(vivid.ActorFN(func(ctx vivid.ActorContext) {
			switch m := ctx.Message().(type) {
			case start:
				where := m.r.where
				tref, _ := ctx.System().CreateRef(m.r.addr, m.r.tpath)
				fref, _ := ctx.System().CreateRef(m.r.addr, m.r.fpath)
				switch op {
				case 0:
					ctx.Tell(tref, newRMsg("op", 1, 100, 0))
				case 1:
					f := ctx.Ask(tref, newRMsg("op", 2, 100, 1), 5*time.Second)
					vsimrt.Go("c15.wait", func() {
						vsimrt.SetTag(1)
						m, err := f.Result()
						vsimrt.Yield()
						if rep, ok := m.(*RRep); ok && err == nil {
							obs(where, fmt.Sprintf("ask-reply seq=%d", rep.Seq))
						} else {
							obs(where, fmt.Sprintf("ask-failed %v", errClass(err)))
						}
					})
				case 2:
					ctx.Kill(tref, false, killReason)
				case 3:
					ctx.Kill(tref, true, killReason)
				case 4, 5:
					ctx.Watch(tref)
					if op == 5 {
						ctx.Unwatch(tref)
					}
					ref := tref
					vsimrt.Go("c15.killer", func() {
						vsimrt.SetTag(1)
						vsimrt.Sleep(500 * time.Millisecond)
						// the target's own node terminates it
						n := a
						if where == "remote" {
							n = b
						}
						n.Do(func() {
							lr, _ := n.Sys.CreateRef(ref.GetAddress(), ref.GetPath())
							n.Sys.Kill(lr, false, "c15")
						})
					})
				case 13, 14:
					// a symmetric deployment: node B runs an actor with the same path (/op) that watches the same target
					ctx.Watch(tref)
					if op == 14 {
						ctx.Unwatch(tref)
					}
					ref := tref
					vsimrt.Go("c15.killer", func() {
						vsimrt.SetTag(1)
						vsimrt.Sleep(500 * time.Millisecond)
						n := a
						if where == "remote" {
							n = b
						}
						n.Do(func() {
							lr, _ := n.Sys.CreateRef(ref.GetAddress(), ref.GetPath())
							n.Sys.Kill(lr, false, "c15")
						})
					})
				case 6:
					tr := tref
					vsimrt.Go("c15.ping", func() {
						vsimrt.SetTag(1)
						var pong *vivid.Pong
						var err error
						pong, err = ctx.Ping(tr, 5*time.Second)
						vsimrt.Yield()
						if err == nil && pong != nil {
							obs(where, "pong")
						} else {
							obs(where, "ping-failed "+errClass(err))
						}
					})
				case 7:
					ctx.PipeTo(tref, newRMsg("op", 7, 50, 1), vivid.ActorRefs{fref}, 5*time.Second)
				case 8:
					ctx.PipeTo(tref, newRMsg("op", 8, 50, 0), vivid.ActorRefs{fref}, 300*time.Millisecond) // the target never replies: time-out
				case 15:
					// the asked actor is local in both runs; what differs is where the forwarder lives: the failed result
					// (a plain error) must reach a remote forwarder as a failure, as it reaches a local one
					lref, _ := ctx.System().CreateRef(a.Addr, "/t-local")
					ctx.PipeTo(lref, newRMsg("op", 15, 50, 2), vivid.ActorRefs{fref}, 5*time.Second)
				case 16:
					f := ctx.Ask(tref, newRMsg("op", 16, 100, 3), 5*time.Second)
					vsimrt.Go("c15.wait", func() {
						vsimrt.SetTag(1)
						m, err := f.Result()
						vsimrt.Yield()
						obs(where, fmt.Sprintf("ask-completed message-nil=%v %s", m == nil, errClass(err)))
					})
				case 17, 18:
					// the first incarnation receives a message; its own node terminates it and creates an actor of the same
					// name; the script then reaches the second incarnation through a reference made afresh
					ctx.Tell(tref, newRMsg("op", 17, 40, 0))
					rr, self := m.r, ctx.Ref()
					vsimrt.Go("c15.respawn", func() {
						vsimrt.SetTag(1)
						vsimrt.Sleep(500 * time.Millisecond)
						n := a
						if where == "remote" {
							n = b
						}
						n.Do(func() {
							lr, _ := n.Sys.CreateRef(rr.addr, rr.tpath)
							n.Sys.Kill(lr, false, "c15")
						})
						vsimrt.Sleep(500 * time.Millisecond)
						target(n, rr.tpath[1:], where)
						vsimrt.Sleep(500 * time.Millisecond)
						a.Do(func() { a.Sys.Tell(self, second{rr}) })
					})
				case 9:
					_ = ctx.Scheduler().Once(tref, 50*time.Millisecond, newRMsg("op", 9, 30, 0))
				case 10:
					a.Sys.Tell(tref, newRMsg("op", 10, 64, 0))
				case 11:
					a.Sys.Kill(tref, false, killReason)
				case 12:
					// the target asks back: a reply must reach an asker on another node as well
					f := ctx.Ask(tref, newRMsg("op", 12, 10, 1), 5*time.Second)
					vsimrt.Go("c15.wait", func() {
						vsimrt.SetTag(1)
						_, err := f.Result()
						vsimrt.Yield()
						obs(where, "ask-completed "+errClass(err))
					})
				}
			case second:
				where := m.r.where
				tr, _ := ctx.System().CreateRef(m.r.addr, m.r.tpath)
				ctx.Tell(tr, newRMsg("op", 18, 40, 0))
				vsimrt.Go("c15.ping2", func() {
					vsimrt.SetTag(1)
					pong, err := ctx.Ping(tr, 5*time.Second)
					vsimrt.Yield()
					if err == nil && pong != nil {
						obs(where, "second-incarnation-pong")
					} else {
						obs(where, "second-incarnation-ping-failed "+errClass(err))
					}
					if op == 18 {
						a.Do(func() { a.Sys.Kill(tr, false, killReason) })
					}
				})
			case *vivid.OnKilled:
				for _, rr := range runs {
					if m.Ref != nil && m.Ref.GetPath() == rr.tpath {
						obs(rr.where, fmt.Sprintf("watcher-got-OnKilled naming-target=%v", m.Ref.GetAddress() == rr.addr))
					}
				}
			}
		}), vivid.WithActorName("op"))
		for _, rr := range runs {
			a.Sys.Tell(opRef, start{rr})
		}
	})
	if op == 13 || op == 14 {
		b.Do(func() {
			opB, _ := b.Sys.ActorOf(vivid.ActorFN(func(ctx vivid.ActorContext) {
				switch m := ctx.Message().(type) {
				case start:
					tref, _ := ctx.System().CreateRef(m.r.addr, m.r.tpath)
					ctx.Watch(tref)
				case *vivid.OnKilled:
					for _, rr := range runs {
						if m.Ref != nil && m.Ref.GetPath() == rr.tpath {
							obs(rr.where, fmt.Sprintf("watcher@B-got-OnKilled naming-target=%v", m.Ref.GetAddress() == rr.addr))
						}
					}
				}
			}), vivid.WithActorName("op"))
			for _, rr := range runs {
				b.Sys.Tell(opB, start{rr})
			}
		})
	}
	r.Waiting("operations to settle")
	vsimrt.SettleFor(8 * time.Second)
	if r.Failed() {
		return
	}
	for _, n := range []*RNode{a, b} {
		n.mu.Lock()
		df := n.decodeFailed
		n.mu.Unlock()
		if df > 0 {
			r.Fail("C15/decode-failed op="+c15Ops[op], "operation %s against a remote target: node %s could not decode %d frame(s) (user codec: %v); local outcome %v, remote outcome %v", c15Ops[op], n.Addr, df, codec, outcome["local"], outcome["remote"])
			return
		}
	}
	mu.Lock()
	if op == 15 {
		// both runs use the local target: only what the forwarders saw is compared
		for _, k := range []string{"local", "remote"} {
			var f []string
			for _, o := range outcome[k] {
				if strings.HasPrefix(o, "forwarder-got") {
					f = append(f, o)
				}
			}
			outcome[k] = f
		}
	}
	loc, rem := sortedCopy(outcome["local"]), sortedCopy(outcome["remote"])
	mu.Unlock() // never hold a harness lock while calling into the system (Stop below publishes events that call obs)
	if len(loc) == 0 && op != 5 {
		r.Fail("C15/harness", "operation %s produced no observable outcome even locally", c15Ops[op])
		return
	}
	if fmt.Sprint(loc) != fmt.Sprint(rem) {
		r.Fail("C15/outcome-differs op="+c15Ops[op], "operation %s: with a local target the observable outcome is %v, with a remote target it is %v (user codec: %v)", c15Ops[op], loc, rem, codec)
		return
	}
	// the differential comparison cannot see a failure that hits both sides alike: absolute expectations for the watch operations
	want := map[int][]string{
		4:  {"watcher-got-OnKilled naming-target=true"},
		5:  {},
		13: {"watcher-got-OnKilled naming-target=true", "watcher@B-got-OnKilled naming-target=true"},
		14: {"watcher@B-got-OnKilled naming-target=true"},
	}
	if exp, ok := want[op]; ok {
		for i, got := range [][]string{loc, rem} {
			side := []string{"local", "remote"}[i]
			var notices []string
			for _, o := range got {
				if len(o) > 7 && o[:7] == "watcher" {
					notices = append(notices, o)
				}
			}
			if fmt.Sprint(notices) != fmt.Sprint(sortedCopy(exp)) && !(len(notices) == 0 && len(exp) == 0) {
				r.Fail("C15/watch-notices-wrong op="+c15Ops[op], "operation %s with a %s target: the watchers received %v, expected %v (A:/op and B:/op are different actors with the same path; user codec: %v)", c15Ops[op], side, notices, exp, codec)
				return
			}
		}
	}
	// ... and for the re-created target: a reference made after the namesake exists reaches the namesake
	if op == 17 || op == 18 {
		for i, got := range [][]string{loc, rem} {
			side := []string{"local", "remote"}[i]
			for _, need := range []string{"target-received seq=17 intact=true", "target-received seq=18 intact=true", "second-incarnation-pong"} {
				found := false
				for _, o := range got {
					found = found || o == need
				}
				if !found {
					r.Fail("C15/respawned-target-unreachable op="+c15Ops[op], "operation %s with a %s target: %q is missing from the outcome %v (the first actor of that name was terminated and a second one created before the reference was made; user codec: %v)", c15Ops[op], side, need, got, codec)
					return
				}
			}
		}
	}
	netFaultCounts(r, nw)
	_ = a.Stop()
	_ = b.Stop()
}

func errClass(err error) string {
	switch {
	case err == nil:
		return "ok"
	case errors.Is(err, vivid.ErrorFutureTimeout):
		return "timeout"
	}
	return "error"
}

func sortedCopy(s []string) []string {
	out := append([]string(nil), s...)
	for i := 1; i < len(out); i++ {
		for j := i; j > 0 && out[j] < out[j-1]; j-- {
			out[j], out[j-1] = out[j-1], out[j]
		}
	}
	return out
}
