//go:build vsim

package vsimharness

import (
	"errors"
	"fmt"
	"sort"
	"sync"
	"time"

	"github.com/kercylan98/vivid"
	vsimrt "vsimrt/simrt"
)

// C20 - scheduled messages fire as specified and die with their actor (DESIGN.md 3, C20).

func init() {
	register(&Workload{Prop: "C20", Variant: "jobs", Horizon: 10 * time.Minute, MaxSteps: 400000, MaxG: 4096, Spin: 10000, PCTLen: 4000, Body: c20Jobs})
}

type c20Msg struct {
	ID    int // job id (the observer extracts it from dead letters)
	Owner string
}

type c20Job struct {
	id        int
	owner     int
	kind      int // 0 once 1 loop 2 cron(valid, every 2s) 3 cron(invalid)
	period    time.Duration
	toSink    bool
	viaStruct bool   // options passed with WithScheduleOptions(struct) instead of the single-field options
	toPeer    int    // >= 0: delivered to that other owner, which has jobs (and references) of its own
	ref       string // "" = default reference
	start     time.Duration
	schedErr  error
	end       time.Duration // first disruption affecting it (horizon if none)
	ended     bool
	endKind   string
	lenient   bool // shares its reference with another pending job of the same actor: which of the two is live is unspecified
}

// c20OwnerName: the second owner's name continues the first one's (/sup/j0 and /sup/j0b): jobs are keyed by the owner's
// whole path, a path that merely begins like another actor's is a different actor.
func c20OwnerName(o int) string {
	if o == 1 {
		return "j0b"
	}
	return fmt.Sprintf("j%d", o)
}

func c20Jobs(r *R) {
	w := newWorld(r, WorldOpt{})
	if r.Failed() {
		return
	}
	const horizon = 3200 * time.Millisecond
	nOwners := 1 + r.Choose(3)
	var mu sync.Mutex
	deliveries := map[int][]time.Duration{} // job -> delivery times (at the receiver's behaviour)
	wrongValue := ""
	onOther := func(ctx vivid.ActorContext, p *Probe, m any) {
		switch v := m.(type) {
		case c20Msg:
			mu.Lock()
			deliveries[v.ID] = append(deliveries[v.ID], w.now())
			mu.Unlock()
		default:
			mu.Lock()
			if wrongValue == "" {
				wrongValue = fmt.Sprintf("%T", m)
			}
			mu.Unlock()
		}
	}
	decide := func(n int, ctx vivid.SupervisionContext) vivid.SupervisionDecision {
		return vivid.SupervisionDecisionRestart
	}
	// a restarted owner arms a new Loop in the OnLaunch of its new incarnation (the usual "start my tick in OnLaunch"):
	// the restart clears the old incarnation's jobs, not the ones the new incarnation has just scheduled
	var relaunched func(o, inc int, ctx vivid.ActorContext, p *Probe)
	relaunchHook := func(o int) func(ctx vivid.ActorContext, p *Probe) {
		return func(ctx vivid.ActorContext, p *Probe) {
			w.mu.Lock()
			inc := w.inc[p.Path]
			w.mu.Unlock()
			if inc >= 1 && relaunched != nil {
				relaunched(o, inc, ctx, p)
			}
		}
	}
	sup := &Spec{Name: "sup", Strategy: vivid.OneForOneStrategy(w.NewMaker("sup", decide))}
	// the third owner is a namesake of the first under another parent (/sup2/j0 next to /sup/j0): jobs are keyed by the
	// owner's path, not by its name
	ownerPath := func(o int) string {
		if o == 2 {
			return "/sup2/j0"
		}
		return "/sup/" + c20OwnerName(o)
	}
	for i := 0; i < nOwners && i < 2; i++ {
		sup.Children = append(sup.Children, &Spec{Name: c20OwnerName(i), OnOther: onOther, OnLaunch: relaunchHook(i)})
	}
	if _, err := w.Spawn(sup); err != nil {
		r.Fail("C20/harness", "spawn: %v", err)
		return
	}
	if nOwners == 3 {
		sup2 := &Spec{Name: "sup2", Strategy: vivid.OneForOneStrategy(w.NewMaker("sup2", decide)), Children: []*Spec{{Name: "j0", OnOther: onOther, OnLaunch: relaunchHook(2)}}}
		if _, err := w.Spawn(sup2); err != nil {
			r.Fail("C20/harness", "spawn: %v", err)
			return
		}
		r.Count("namesake-owners-under-different-parents")
	}
	sink, _ := w.Spawn(&Spec{Name: "sink", OnOther: onOther})
	vsimrt.Settle()
	periods := []time.Duration{100 * time.Millisecond, 250 * time.Millisecond, 400 * time.Millisecond, time.Second}
	var jobs []*c20Job
	var jdesc []string
	for o := 0; o < nOwners; o++ {
		n := 1 + r.Choose(5)
		for k := 0; k < n; k++ {
			j := &c20Job{id: len(jobs) + 1, owner: o, kind: r.Choose(7) % 4, period: periods[r.Choose(len(periods))], toSink: r.Chance(35), toPeer: -1, end: horizon}
			if !j.toSink && nOwners > 1 && r.Chance(30) {
				// the receiver is another owner: a scheduled message reaching an actor has nothing to do with that actor's own
				// jobs, even when both use the same reference
				j.toPeer = (o + 1 + r.Choose(nOwners-1)) % nOwners
				r.Count("job-delivered-to-another-owner")
			}
			if j.kind == 0 && r.Chance(15) {
				// "all delays": a Once with a delay of zero or of one millisecond
				j.period = []time.Duration{0, time.Millisecond}[r.Choose(2)]
			}
			switch r.Choose(3) {
			case 0:
				j.ref = fmt.Sprintf("ref-%d", j.id)
			case 1:
				j.ref = "shared" // the same reference on different actors (and possibly twice on one: the later job replaces the key)
			}
			if r.Chance(25) {
				j.viaStruct = true
				r.Count("options-passed-as-struct")
			}
			jobs = append(jobs, j)
			jdesc = append(jdesc, fmt.Sprintf("job%d owner=j%d kind=%s period=%v sink=%v peer=%d ref=%q", j.id, o, []string{"once", "loop", "cron", "cron-invalid"}[j.kind], j.period, j.toSink, j.toPeer, j.ref))
		}
	}
	ownerRef := func(o int) vivid.ActorRef { return w.RefBy("create", nil, ownerPath(o)) }
	// schedule everything at t = 0 (inside the owners' handlers)
	sharedSeen := map[int]bool{}
	for o := 0; o < nOwners; o++ {
		o := o
		var mine []*c20Job
		for _, j := range jobs {
			if j.owner == o {
				mine = append(mine, j)
			}
		}
		// A reference used twice on the same actor while the first job is still pending: the property does not say which
		// of the two is live afterwards, so for such a pair only the negative half is checked (nothing of either fires
		// after Cancel(reference) / Clear / owner death / restart, and Cancel of the reference succeeds).
		var keep []*c20Job
		for _, j := range mine {
			if j.ref == "shared" {
				if sharedSeen[o] {
					j.ref = fmt.Sprintf("ref-%d", j.id)
				}
				sharedSeen[o] = true
			}
			keep = append(keep, j)
		}
		for i, j := range keep {
			if i > 0 && j.kind != 3 && r.Chance(20) {
				for _, e := range keep[:i] {
					if e.ref != "" && e.kind != 3 {
						j.ref = e.ref
						j.lenient, e.lenient = true, true
						r.Count("reference-reused-on-same-actor")
						break
					}
				}
			}
		}
		w.Tell(ownerRef(o), w.NewCmd("setup", o, func(ctx vivid.ActorContext, p *Probe) {
			for _, j := range keep {
				recv := ctx.Ref()
				if j.toSink {
					recv = sink
				}
				if j.toPeer >= 0 {
					recv = ownerRef(j.toPeer)
				}
				var opts []vivid.ScheduleOption
				if j.ref != "" {
					opts = append(opts, vivid.WithSchedulerReference(j.ref))
				}
				if j.viaStruct {
					// the options handed over as a struct with only the fields the caller cares about: a reference and no
					// location, or a location and no reference ("generated when not given")
					if j.ref != "" {
						opts = []vivid.ScheduleOption{vivid.WithScheduleOptions(vivid.ScheduleOptions{Reference: j.ref})}
					} else {
						opts = []vivid.ScheduleOption{vivid.WithScheduleOptions(vivid.ScheduleOptions{Location: time.Local})}
					}
				}
				msg := c20Msg{ID: j.id, Owner: p.Path}
				var err error
				switch j.kind {
				case 0:
					err = ctx.Scheduler().Once(recv, j.period, msg, opts...)
				case 1:
					err = ctx.Scheduler().Loop(recv, j.period, msg, opts...)
				case 2:
					err = ctx.Scheduler().Cron(recv, "*/2 * * * * *", msg, opts...)
				case 3:
					err = ctx.Scheduler().Cron(recv, "not a cron expression", msg, opts...)
				}
				mu.Lock()
				j.start = w.now()
				j.schedErr = err
				mu.Unlock()
			}
		}))
	}
	// disruptions at drawn instants: strictly between firing instants, or exactly at one
	instants := []time.Duration{130 * time.Millisecond, 375 * time.Millisecond, 620 * time.Millisecond, 1130 * time.Millisecond, 1730 * time.Millisecond, // between
		200 * time.Millisecond, 500 * time.Millisecond, time.Second, 2 * time.Second} // exactly at
	type disr struct {
		at    time.Duration
		owner int
		kind  int // 0 cancel(ref of a job) 1 cancel(unknown) 2 clear 3 kill 4 restart
		job   *c20Job
	}
	var ds []disr
	nD := r.Choose(4)
	for i := 0; i < nD; i++ {
		d := disr{at: instants[r.Choose(len(instants))], owner: r.Choose(nOwners), kind: r.Choose(5)}
		if d.kind == 0 {
			var cands []*c20Job
			for _, j := range jobs {
				if j.owner == d.owner && j.ref != "" && j.kind != 3 {
					cands = append(cands, j)
				}
			}
			if len(cands) == 0 {
				d.kind = 1
			} else {
				d.job = cands[r.Choose(len(cands))]
			}
		}
		ds = append(ds, d)
	}
	sort.SliceStable(ds, func(i, j int) bool { return ds[i].at < ds[j].at })
	var ddesc []string
	for _, d := range ds {
		s := fmt.Sprintf("t=%v j%d %s", d.at, d.owner, []string{"Cancel(known)", "Cancel(unknown)", "Clear", "kill", "restart"}[d.kind])
		if d.job != nil {
			s += fmt.Sprintf("(job%d)", d.job.id)
		}
		ddesc = append(ddesc, s)
	}
	r.Sample(map[string]any{"jobs": jdesc, "disruptions": ddesc})
	relaunched = func(o, inc int, ctx vivid.ActorContext, p *Probe) {
		// the new job lives until the next disruption of this owner that follows, in script order, the restart that
		// created it (that disruption may already have been issued: several can share an instant)
		end, endKind, ended := horizon, "", false
		seenRestarts := 0
		for _, d := range ds {
			if d.owner != o {
				continue
			}
			if seenRestarts >= inc && (d.kind == 2 || d.kind == 3 || d.kind == 4) {
				end, endKind, ended = d.at, []string{"", "", "clear", "owner-kill", "owner-restart"}[d.kind], true
				break
			}
			if d.kind == 4 {
				seenRestarts++
			}
			if d.kind == 3 {
				break
			}
		}
		mu.Lock()
		j := &c20Job{id: len(jobs) + 1, owner: o, kind: 1, period: 250 * time.Millisecond, end: end, ended: ended, endKind: endKind, ref: fmt.Sprintf("relaunch-%d", len(jobs)+1)}
		jobs = append(jobs, j)
		mu.Unlock()
		err := ctx.Scheduler().Loop(ctx.Ref(), j.period, c20Msg{ID: j.id, Owner: p.Path}, vivid.WithSchedulerReference(j.ref))
		mu.Lock()
		j.start = w.now()
		j.schedErr = err
		mu.Unlock()
		r.Count("job-scheduled-in-OnLaunch-after-restart")
	}
	cancelResults := map[int]error{}
	cancelLive := map[int]bool{}
	dead := map[int]bool{}
	for di, d := range ds {
		di, d := di, d
		if wait := d.at - w.now(); wait > 0 {
			vsimrt.Sleep(wait)
		}
		if dead[d.owner] {
			continue
		}
		endJobs := func(match func(j *c20Job) bool) {
			mu.Lock()
			for _, j := range jobs {
				if j.owner == d.owner && !j.ended && match(j) {
					j.ended = true
					j.end = d.at
					j.endKind = []string{"cancel", "cancel", "clear", "owner-kill", "owner-restart"}[d.kind]
				}
			}
			mu.Unlock()
		}
		switch d.kind {
		case 0:
			mu.Lock()
			wasLive := !d.job.ended
			mu.Unlock()
			cancelLive[di] = wasLive
			endJobs(func(j *c20Job) bool { return j.ref == d.job.ref })
			w.Tell(ownerRef(d.owner), w.NewCmd("disrupt", di, func(ctx vivid.ActorContext, p *Probe) {
				err := ctx.Scheduler().Cancel(d.job.ref)
				mu.Lock()
				cancelResults[di] = err
				mu.Unlock()
			}))
			r.Count("cancel-known")
		case 1:
			w.Tell(ownerRef(d.owner), w.NewCmd("disrupt", di, func(ctx vivid.ActorContext, p *Probe) {
				err := ctx.Scheduler().Cancel("no-such-reference")
				mu.Lock()
				cancelResults[di] = err
				if err == nil {
					cancelResults[di] = errors.New("<nil>")
				}
				mu.Unlock()
			}))
			r.Count("cancel-unknown")
		case 2:
			endJobs(func(j *c20Job) bool { return true })
			w.Tell(ownerRef(d.owner), w.NewCmd("disrupt", di, func(ctx vivid.ActorContext, p *Probe) { ctx.Scheduler().Clear() }))
			r.Count("clear")
		case 3:
			endJobs(func(j *c20Job) bool { return true })
			dead[d.owner] = true
			w.Sys.Kill(ownerRef(d.owner), false, "scripted")
			r.Count("owner-killed")
		case 4:
			endJobs(func(j *c20Job) bool { return true })
			w.Tell(ownerRef(d.owner), w.NewCmd("disrupt", di, func(ctx vivid.ActorContext, p *Probe) { panic("scripted failure -> restart") }))
			r.Count("owner-restarted")
		}
	}
	if wait := horizon - w.now(); wait > 0 {
		vsimrt.SettleFor(wait)
	} else {
		vsimrt.Settle()
	}
	if r.Failed() {
		return
	}
	tEnd := w.now()
	evs := w.Events()
	mu.Lock()
	defer mu.Unlock()
	if wrongValue != "" {
		r.Fail("C20/wrong-message-value", "a behaviour received a %s instead of the original scheduled message value", wrongValue)
		return
	}
	for di, d := range ds {
		err, ok := cancelResults[di]
		if !ok {
			continue
		}
		if d.kind == 1 && !errors.Is(err, vivid.ErrorNotFound) {
			r.Fail("C20/cancel-unknown-result", "Cancel of an unknown reference returned %v (expected not-found)", err)
			return
		}
		if d.kind == 0 && err != nil && cancelLive[di] && d.job.kind != 0 && !d.job.lenient {
			// a Loop/Cron job that nothing ended before is live: cancelling its reference must succeed
			r.Fail("C20/cancel-known-failed", "Cancel(%q) of a live %s job returned %v", d.job.ref, []string{"Once", "Loop", "Cron"}[d.job.kind], err)
			return
		}
	}
	dlAt := map[int][]time.Duration{}
	for _, e := range evs {
		if e.Path == "@obs" && e.Kind == "Evt:DeathLetter" && e.ID != 0 && (e.Info == "vsimharness.c20Msg" || e.Info == "*actor.SchedulerMessage") {
			dlAt[e.ID] = append(dlAt[e.ID], e.T)
		}
	}
	// dead letters carry a SchedulerMessage wrapping the payload: the observer unwraps Cmd payloads only, so map by owner below
	for _, j := range jobs {
		got := deliveries[j.id]
		if j.toPeer >= 0 {
			// the receiving owner may itself have been killed by the script: the firing then shows as a dead letter
			got = append(append([]time.Duration{}, got...), dlAt[j.id]...)
		}
		sort.Slice(got, func(a, b int) bool { return got[a] < got[b] })
		if j.kind == 3 {
			if !errors.Is(j.schedErr, vivid.ErrorCronParse) {
				r.Fail("C20/invalid-cron-accepted", "job%d: Cron with an invalid expression returned %v (expected ErrorCronParse)", j.id, j.schedErr)
				return
			}
			if len(got) > 0 {
				r.Fail("C20/invalid-cron-fired", "job%d: an invalid cron expression was rejected but the job fired at %v", j.id, got)
				return
			}
			continue
		}
		if j.schedErr != nil {
			r.Fail("C20/schedule-failed", "job%d: scheduling returned %v", j.id, j.schedErr)
			return
		}
		// expected firing instants
		var must, may []time.Duration
		add := func(f time.Duration) {
			switch {
			case f < j.end && f <= tEnd:
				must = append(must, f)
			case f == j.end:
				may = append(may, f)
			}
		}
		switch j.kind {
		case 0:
			add(j.start + j.period)
		case 1:
			for f := j.start + j.period; f <= tEnd; f += j.period {
				add(f)
			}
		case 2:
			for f := 2 * time.Second; f <= tEnd; f += 2 * time.Second {
				if f > j.start {
					add(f)
				}
			}
		}
		kindName := []string{"Once", "Loop", "Cron"}[j.kind]
		// no delivery before its instant, none after the end, none duplicated
		seen := map[time.Duration]int{}
		for _, g := range got {
			seen[g]++
			if j.ended && g > j.end {
				r.Fail(fmt.Sprintf("C20/fired-after-%s kind=%s", j.endKind, kindName), "job%d (%s every/after %v, scheduled at %v) was delivered at %v although it ended at %v (%s); deliveries: %v", j.id, kindName, j.period, j.start, g, j.end, j.endKind, got)
				return
			}
			if j.lenient {
				continue
			}
			ok := false
			for _, f := range append(append([]time.Duration{}, must...), may...) {
				if f == g {
					ok = true
				}
			}
			if !ok {
				cls := "C20/fired-at-unexpected-instant kind=" + kindName
				if len(must)+len(may) > 0 && g < append(append([]time.Duration{}, must...), may...)[0] {
					cls = "C20/fired-early kind=" + kindName
				}
				r.Fail(cls, "job%d (%s, period/delay %v, scheduled at %v) was delivered at %v; expected instants %v (optional %v); all deliveries %v", j.id, kindName, j.period, j.start, g, must, may, got)
				return
			}
			if seen[g] > 1 {
				r.Fail("C20/fired-twice kind="+kindName, "job%d was delivered %d times at %v", j.id, seen[g], g)
				return
			}
		}
		for _, f := range must {
			if j.lenient {
				break
			}
			if seen[f] == 0 {
				r.Fail("C20/missed-firing kind="+kindName, "job%d (%s, period/delay %v, scheduled at %v, valid until %v) was not delivered at %v; deliveries: %v", j.id, kindName, j.period, j.start, j.end, f, got)
				return
			}
		}
		if j.kind == 0 && len(got) > 1 && !j.lenient {
			r.Fail("C20/once-fired-more-than-once", "job%d (Once) was delivered at %v", j.id, got)
			return
		}
		for _, t := range dlAt[j.id] {
			if j.ended && t > j.end {
				r.Fail(fmt.Sprintf("C20/dead-letter-after-%s", j.endKind), "job%d fired at %v after it ended at %v and became a dead letter", j.id, t, j.end)
				return
			}
		}
		r.CountN("deliveries-checked", len(got))
	}
}
