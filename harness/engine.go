//go:build vsim

package vsimharness

import (
	"context"
	"fmt"
	"reflect"
	"sort"
	"strings"
	"sync"
	"time"

	"github.com/kercylan98/vivid"
	"github.com/kercylan98/vivid/pkg/bootstrap"
	"github.com/kercylan98/vivid/pkg/log"
	"github.com/kercylan98/vivid/pkg/ves"
	vsimrt "vsimrt/simrt"
)

// ---- scenario engine: a real ActorSystem, script-driven probe actors and a recorder (DESIGN.md 2.7) ----

// Event is one observation. Step is the global event sequence number (scheduler step).
type Event struct {
	Step int
	T    time.Duration
	Path string // actor that observed it ("@obs" for stream events seen by the observer)
	Inc  int    // incarnation of that actor at the time
	Inst int    // instance number of the actor object (provider)
	Beh  string // behaviour tag ("main" or a Become tag)
	Kind string // OnLaunch OnKill OnKilled Cmd PipeResult Sched Hook Evt:<Type> Other
	ID   int    // Cmd id
	Ref  string // path the event is about (OnKilled.Ref, event's ActorRef)
	Info string
}

func (e Event) String() string {
	s := fmt.Sprintf("#%d %s[%d] %s", e.Step, e.Path, e.Inc, e.Kind)
	if e.ID != 0 {
		s += fmt.Sprintf(" id=%d", e.ID)
	}
	if e.Ref != "" {
		s += " ref=" + e.Ref
	}
	if e.Info != "" {
		s += " " + e.Info
	}
	if e.Beh != "" && e.Beh != "main" {
		s += " beh=" + e.Beh
	}
	return s
}

// Cmd is the user payload of the scenarios: a unique id plus an action executed by the receiving probe.
type Cmd struct {
	ID     int
	Sender string
	Seq    int
	Do     func(ctx vivid.ActorContext, p *Probe)
}

type World struct {
	r      *R
	Sys    vivid.PrimaryActorSystem
	Ctx    context.Context
	Cancel context.CancelFunc

	mu       sync.Mutex // real lock (see core.go)
	events   []Event
	nextID   int
	inc      map[string]int // path -> incarnation
	inst     map[string]int // path -> provider instances created
	sent     map[int]*SentInfo
	t0       time.Time
	Obs      vivid.ActorRef
	makers   map[string]*Maker
	provider map[string]bool
	Addr     string
}

// SentInfo describes a user message the scenario sent.
type SentInfo struct {
	ID    int
	To    string
	How   string // provenance of the reference
	State string // what the scenario believes the target state to be
	Step  int
	Phase string
}

type WorldOpt struct {
	Addr         string // advertise address when remoting is on (default "localhost")
	Strategy     vivid.SupervisionStrategy
	MakeStrategy func(w *World) vivid.SupervisionStrategy // called before the system exists (system-level maker)
	SysOpts      []vivid.ActorSystemOption
	NoObs        bool
	NoStart      bool
}

func newWorld(r *R, o WorldOpt) *World {
	w := &World{r: r, inc: map[string]int{}, inst: map[string]int{}, sent: map[int]*SentInfo{}, t0: time.Now(), makers: map[string]*Maker{}, provider: map[string]bool{}}
	w.Addr = o.Addr
	if w.Addr == "" {
		w.Addr = "localhost"
	}
	w.Ctx, w.Cancel = context.WithCancel(context.Background())
	opts := []vivid.ActorSystemOption{vivid.WithActorSystemLogger(log.NewSilentLogger()), vivid.WithActorSystemContext(w.Ctx)}
	if o.MakeStrategy != nil {
		o.Strategy = o.MakeStrategy(w)
	}
	if o.Strategy != nil {
		opts = append(opts, vivid.WithActorSystemSupervisionStrategy(o.Strategy))
	}
	opts = append(opts, o.SysOpts...)
	w.Sys = bootstrap.NewActorSystem(opts...)
	if o.NoStart {
		return w
	}
	if err := w.Sys.Start(); err != nil {
		r.Fail(r.Prop+"/start-failed", "Start() returned %v", err)
		return w
	}
	if !o.NoObs {
		w.spawnObserver()
	}
	return w
}

func (w *World) now() time.Duration { return time.Since(w.t0) }

func (w *World) rec(e Event) {
	e.Step = vsimrt.Step()
	e.T = w.now()
	w.mu.Lock()
	if e.Path != "@obs" {
		e.Inc = w.inc[e.Path]
	}
	w.events = append(w.events, e)
	w.mu.Unlock()
	vsimrt.Progress()
}

// Events returns a copy of the log.
func (w *World) Events() []Event {
	w.mu.Lock()
	defer w.mu.Unlock()
	return append([]Event(nil), w.events...)
}

func (w *World) NewID() int {
	w.mu.Lock()
	defer w.mu.Unlock()
	w.nextID++
	return w.nextID
}

func (w *World) noteSent(id int, to, how, state, phase string) {
	w.mu.Lock()
	w.sent[id] = &SentInfo{ID: id, To: to, How: how, State: state, Step: vsimrt.Step(), Phase: phase}
	w.mu.Unlock()
}

func refPath(r vivid.ActorRef) string {
	if r == nil || reflect.ValueOf(r).IsNil() {
		return "<nil>"
	}
	return r.GetPath()
}

var eventTypes = []any{ves.DeathLetterEvent{}, ves.ActorKilledEvent{}, ves.ActorFailedEvent{}, ves.ActorRestartingEvent{}, ves.ActorRestartedEvent{},
	ves.ActorWatchedEvent{}, ves.ActorUnwatchedEvent{}, ves.ActorLaunchedEvent{}, ves.ActorSpawnedEvent{}, ves.ActorMailboxPausedEvent{}, ves.ActorMailboxResumedEvent{}}

// spawnObserver creates the top-level recorder actor that subscribes to the lifecycle and dead-letter events.
func (w *World) spawnObserver() {
	ready := make(chan struct{})
	ref, err := w.Sys.ActorOf(vivid.ActorFN(func(ctx vivid.ActorContext) {
		switch m := ctx.Message().(type) {
		case *vivid.OnLaunch:
			for _, t := range eventTypes {
				ctx.EventStream().Subscribe(ctx, t)
			}
			close(ready)
		case ves.DeathLetterEvent:
			e := Event{Path: "@obs", Kind: "Evt:DeathLetter", Ref: refPath(m.Envelope.Receiver())}
			switch p := m.Envelope.Message().(type) {
			case *Cmd:
				e.ID = p.ID
				e.Info = "Cmd"
			case ves.ActorKilledEvent:
				e.Info = "ves.ActorKilledEvent of=" + refPath(p.ActorRef)
			case ves.DeathLetterEvent:
				// an undeliverable user message that is itself a DeathLetterEvent value (sent as such by a workload, marked
				// "dlwrap"); anything else of this shape is the library wrapping its own dead letters and is not attributed
				e.Info = "ves.DeathLetterEvent"
				if c, ok := p.Envelope.Message().(*Cmd); ok && strings.HasPrefix(c.Sender, "dlwrap:") {
					e.ID = c.ID
					e.Info = "DeathLetterEvent(Cmd)"
				}
			default:
				e.Info = fmt.Sprintf("%T", p)
				if v := reflect.ValueOf(p); v.Kind() == reflect.Struct {
					if f := v.FieldByName("ID"); f.IsValid() && f.CanInt() {
						e.ID = int(f.Int())
					}
				}
				if sm, ok := unwrapSched(p); ok {
					if c, ok := sm.(*Cmd); ok {
						e.ID = c.ID
						e.Info = "Sched(Cmd)"
					} else if v := reflect.ValueOf(sm); v.Kind() == reflect.Struct {
						if f := v.FieldByName("ID"); f.IsValid() && f.CanInt() {
							e.ID = int(f.Int())
						}
					}
				}
			}
			if m.Envelope.System() {
				e.Info += " system"
			}
			w.rec(e)
		case ves.ActorKilledEvent:
			w.rec(Event{Path: "@obs", Kind: "Evt:ActorKilled", Ref: refPath(m.ActorRef)})
		case ves.ActorFailedEvent:
			w.rec(Event{Path: "@obs", Kind: "Evt:ActorFailed", Ref: refPath(m.ActorRef), Info: fmt.Sprint(m.Fault)})
		case ves.ActorRestartingEvent:
			w.rec(Event{Path: "@obs", Kind: "Evt:ActorRestarting", Ref: refPath(m.ActorRef)})
		case ves.ActorRestartedEvent:
			w.rec(Event{Path: "@obs", Kind: "Evt:ActorRestarted", Ref: refPath(m.ActorRef)})
		case ves.ActorWatchedEvent:
			w.rec(Event{Path: "@obs", Kind: "Evt:ActorWatched", Ref: refPath(m.ActorRef), Info: refPath(m.Watcher)})
		case ves.ActorUnwatchedEvent:
			w.rec(Event{Path: "@obs", Kind: "Evt:ActorUnwatched", Ref: refPath(m.ActorRef), Info: refPath(m.Watcher)})
		case ves.ActorLaunchedEvent:
			w.rec(Event{Path: "@obs", Kind: "Evt:ActorLaunched", Ref: refPath(m.ActorRef)})
		case ves.ActorSpawnedEvent:
			w.rec(Event{Path: "@obs", Kind: "Evt:ActorSpawned", Ref: refPath(m.ActorRef)})
		case ves.ActorMailboxPausedEvent:
			w.rec(Event{Path: "@obs", Kind: "Evt:MailboxPaused", Ref: refPath(m.ActorRef)})
		case ves.ActorMailboxResumedEvent:
			w.rec(Event{Path: "@obs", Kind: "Evt:MailboxResumed", Ref: refPath(m.ActorRef)})
		}
	}), vivid.WithActorName("obs"))
	if err != nil {
		w.r.Fail(w.r.Prop+"/harness", "observer spawn failed: %v", err)
		return
	}
	w.Obs = ref
	w.r.Waiting("observer launch")
	<-ready
	vsimrt.Yield()
}

// ---- probe actors ----

// Spec describes a probe actor.
type Spec struct {
	Name     string
	Strategy vivid.SupervisionStrategy
	Provider bool
	Options  []vivid.ActorOption // further options handed to ActorOf (e.g. the actor's own default Ask timeout)
	Plain    bool                // do not implement the PreRestart/Restarted/Prelaunch interfaces
	OnLaunch func(ctx vivid.ActorContext, p *Probe)
	OnKill   func(ctx vivid.ActorContext, p *Probe)
	OnKilled func(ctx vivid.ActorContext, p *Probe, ref vivid.ActorRef)
	OnOther  func(ctx vivid.ActorContext, p *Probe, m any)
	// hook failure injection: return an error / panic from the named hook when the function says so
	PreRestart func(p *Probe) error
	Restarted  func(p *Probe) error
	Prelaunch  func(p *Probe) error
	Children   []*Spec // spawned in OnLaunch
}

// Probe is the actor instance.
type Probe struct {
	W     *World
	Spec  *Spec
	Path  string
	Inst  int
	State int // user-visible state: number of Cmds processed by this instance/incarnation (reset by restart hooks)
	Beh   string
	Vars  map[string]any
}

type probeFull struct{ *Probe }

func (p *Probe) record(ctx vivid.ActorContext, e Event) {
	e.Path = p.pathOf(ctx)
	e.Inst = p.Inst
	e.Beh = p.Beh
	p.W.rec(e)
}

func (p *Probe) pathOf(ctx vivid.ActorContext) string {
	if p.Path == "" {
		p.Path = ctx.Ref().GetPath()
	}
	return p.Path
}

func unwrapSched(m any) (any, bool) {
	v := reflect.ValueOf(m)
	if v.Kind() == reflect.Pointer && !v.IsNil() && v.Elem().Kind() == reflect.Struct && v.Elem().Type().Name() == "SchedulerMessage" {
		f := v.Elem().FieldByName("Message")
		if f.IsValid() {
			return f.Interface(), true
		}
	}
	return nil, false
}

func (p *Probe) OnReceive(ctx vivid.ActorContext) { p.receive(ctx, "main") }

func (p *Probe) receive(ctx vivid.ActorContext, beh string) {
	p.Beh = beh
	switch m := ctx.Message().(type) {
	case *vivid.OnLaunch:
		p.record(ctx, Event{Kind: "OnLaunch"})
		for _, c := range p.Spec.Children {
			if _, err := p.W.SpawnIn(ctx, c); err != nil {
				p.record(ctx, Event{Kind: "SpawnError", Info: c.Name + ": " + err.Error()})
			}
		}
		if p.Spec.OnLaunch != nil {
			p.Spec.OnLaunch(ctx, p)
		}
	case *vivid.OnKill:
		p.record(ctx, Event{Kind: "OnKill", Info: fmt.Sprintf("poison=%v", m.Poison)})
		if p.Spec.OnKill != nil {
			p.Spec.OnKill(ctx, p)
		}
	case *vivid.OnKilled:
		p.record(ctx, Event{Kind: "OnKilled", Ref: refPath(m.Ref)})
		if p.Spec.OnKilled != nil {
			p.Spec.OnKilled(ctx, p, m.Ref)
		}
	case *Cmd:
		p.record(ctx, Event{Kind: "Cmd", ID: m.ID, Info: fmt.Sprintf("from=%s seq=%d", m.Sender, m.Seq)})
		p.State++
		if m.Do != nil {
			m.Do(ctx, p)
		}
	case *vivid.PipeResult:
		info := fmt.Sprintf("msg=%v err=%v", describeMsg(m.Message), m.Error)
		p.record(ctx, Event{Kind: "PipeResult", Info: info})
		if p.Spec.OnOther != nil {
			p.Spec.OnOther(ctx, p, m)
		}
	case ves.DeathLetterEvent:
		// a workload's DeathLetterEvent value carrying one of its commands ("dlwrap", see C03): handled like the command
		if c, ok := m.Envelope.Message().(*Cmd); ok && strings.HasPrefix(c.Sender, "dlwrap:") {
			p.record(ctx, Event{Kind: "Cmd", ID: c.ID, Info: fmt.Sprintf("from=%s seq=%d", c.Sender, c.Seq)})
			p.State++
			return
		}
		p.record(ctx, Event{Kind: "Other", Info: fmt.Sprintf("%T", m)})
		if p.Spec.OnOther != nil {
			p.Spec.OnOther(ctx, p, m)
		}
	default:
		p.record(ctx, Event{Kind: "Other", Info: fmt.Sprintf("%T", m)})
		if p.Spec.OnOther != nil {
			p.Spec.OnOther(ctx, p, m)
		}
	}
}

func describeMsg(m any) string {
	switch v := m.(type) {
	case nil:
		return "nil"
	case *Cmd:
		return fmt.Sprintf("Cmd#%d", v.ID)
	default:
		return fmt.Sprintf("%T(%v)", m, m)
	}
}

func (p probeFull) OnPrelaunch(ctx vivid.PrelaunchContext) error {
	if p.Spec.Prelaunch != nil {
		return p.Spec.Prelaunch(p.Probe)
	}
	return nil
}

func (p probeFull) OnPreRestart(ctx vivid.RestartContext) error {
	p.W.rec(Event{Path: ctx.Ref().GetPath(), Inst: p.Inst, Kind: "Hook", Info: "PreRestart"})
	if p.Spec.PreRestart != nil {
		return p.Spec.PreRestart(p.Probe)
	}
	return nil
}

func (p probeFull) OnRestarted(ctx vivid.RestartContext) error {
	path := ctx.Ref().GetPath()
	p.W.mu.Lock()
	p.W.inc[path]++
	p.W.mu.Unlock()
	p.Path = path
	p.W.rec(Event{Path: path, Inst: p.Inst, Kind: "Hook", Info: "Restarted"})
	if !p.Spec.Provider {
		p.State = 0 // a restart resets the actor's state: without a provider the hook is where user code does that
	}
	if p.Spec.Restarted != nil {
		return p.Spec.Restarted(p.Probe)
	}
	return nil
}

func (w *World) newActor(spec *Spec, path *string) vivid.Actor {
	w.mu.Lock()
	key := "?" + spec.Name
	if path != nil && *path != "" {
		key = *path
	}
	w.inst[key]++
	n := w.inst[key]
	w.mu.Unlock()
	p := &Probe{W: w, Spec: spec, Inst: n, Vars: map[string]any{}}
	if path != nil {
		p.Path = *path
	}
	if spec.Plain {
		return p
	}
	return probeFull{p}
}

func (w *World) actorOptions(spec *Spec, path *string) []vivid.ActorOption {
	opts := []vivid.ActorOption{}
	if spec.Name != "" {
		opts = append(opts, vivid.WithActorName(spec.Name))
	}
	if spec.Strategy != nil {
		opts = append(opts, vivid.WithActorSupervisionStrategy(spec.Strategy))
	}
	opts = append(opts, spec.Options...)
	if spec.Provider {
		if path != nil {
			w.mu.Lock()
			w.provider[*path] = true
			w.mu.Unlock()
		}
		opts = append(opts, vivid.WithActorProvider(vivid.ActorProviderFN(func() vivid.Actor { return w.newActor(spec, path) })))
	}
	return opts
}

// SpawnIn spawns a probe as a child of the actor whose context is ctx.
func (w *World) SpawnIn(ctx vivid.ActorContext, spec *Spec) (vivid.ActorRef, error) {
	path := strings.TrimSuffix(ctx.Ref().GetPath(), "/") + "/" + spec.Name
	w.rec(Event{Path: path, Kind: "Hook", Info: "Spawning"})
	ref, err := ctx.ActorOf(w.newActor(spec, &path), w.actorOptions(spec, &path)...)
	if err != nil {
		w.rec(Event{Path: path, Kind: "Hook", Info: "SpawnFailed"})
	}
	return ref, err
}

// Spawn spawns a top-level probe.
func (w *World) Spawn(spec *Spec) (vivid.ActorRef, error) {
	path := "/" + spec.Name
	w.rec(Event{Path: path, Kind: "Hook", Info: "Spawning"})
	ref, err := w.Sys.ActorOf(w.newActor(spec, &path), w.actorOptions(spec, &path)...)
	if err != nil {
		w.rec(Event{Path: path, Kind: "Hook", Info: "SpawnFailed"})
	}
	return ref, err
}

// Life is one incarnation of an actor path: from a successful spawn or a restart to the next one.
type Life struct {
	Path      string
	ByRestart bool    // started by a supervised restart (else by ActorOf)
	Events    []Event // behaviour-visible events only (hooks removed)
	All       []Event // including hooks
}

// Lives splits the recorded trace of every actor path into incarnations.
func Lives(evs []Event) map[string][]*Life {
	byPath := map[string][]Event{}
	for _, e := range evs {
		if strings.HasPrefix(e.Path, "@") {
			continue
		}
		byPath[e.Path] = append(byPath[e.Path], e)
	}
	out := map[string][]*Life{}
	for path, seq := range byPath {
		// a failed spawn cancels the most recent "Spawning" marker
		drop := map[int]bool{}
		for i, e := range seq {
			if e.Kind == "Hook" && e.Info == "SpawnFailed" {
				drop[i] = true
				for j := i - 1; j >= 0; j-- {
					if seq[j].Kind == "Hook" && seq[j].Info == "Spawning" && !drop[j] {
						drop[j] = true
						break
					}
				}
			}
		}
		var cur *Life
		for i, e := range seq {
			if drop[i] {
				continue
			}
			if e.Kind == "Hook" && (e.Info == "Spawning" || e.Info == "Restarted") {
				cur = &Life{Path: path, ByRestart: e.Info == "Restarted"}
				out[path] = append(out[path], cur)
				cur.All = append(cur.All, e)
				continue
			}
			if cur == nil {
				cur = &Life{Path: path}
				out[path] = append(out[path], cur)
			}
			cur.All = append(cur.All, e)
			if e.Kind != "Hook" {
				cur.Events = append(cur.Events, e)
			}
		}
	}
	return out
}

func sortedPaths[V any](m map[string]V) []string {
	out := make([]string, 0, len(m))
	for k := range m {
		out = append(out, k)
	}
	sort.Strings(out)
	return out
}

// Ref obtains a reference to path with the given provenance: "orig" needs the original ref passed in.
func (w *World) RefBy(how string, orig vivid.ActorRef, path string) vivid.ActorRef {
	switch how {
	case "orig":
		return orig
	case "clone":
		if orig != nil {
			return orig.Clone()
		}
		fallthrough
	case "create":
		ref, err := w.Sys.CreateRef(w.Addr, path)
		if err != nil {
			w.r.Fail(w.r.Prop+"/harness", "CreateRef(%q): %v", path, err)
		}
		return ref
	case "parse":
		var s string
		if orig != nil {
			s = orig.String()
		} else {
			tmp, _ := w.Sys.CreateRef(w.Addr, path)
			s = tmp.String()
		}
		ref, err := w.Sys.ParseRef(s)
		if err != nil {
			w.r.Fail(w.r.Prop+"/harness", "ParseRef(%q): %v", s, err)
		}
		return ref
	}
	panic("unknown provenance " + how)
}

var provenances = []string{"orig", "clone", "parse", "create"}

// Gate lets a handler block until the scenario opens it.
type Gate struct{ ch chan struct{} }

func NewGate() *Gate { return &Gate{ch: make(chan struct{})} }
func (g *Gate) Wait() {
	<-g.ch
	vsimrt.Yield()
}
func (g *Gate) Open() { close(g.ch) }

// Maker is a recording supervision decision maker whose answers come from the script.
type Maker struct {
	w      *World
	Name   string
	mu     sync.Mutex
	Decide func(n int, ctx vivid.SupervisionContext) vivid.SupervisionDecision
	Calls  []MakerCall
}

type MakerCall struct {
	Step     int
	Child    string
	Children []string
	Fault    string
	Decision vivid.SupervisionDecision
}

func (w *World) NewMaker(name string, decide func(n int, ctx vivid.SupervisionContext) vivid.SupervisionDecision) *Maker {
	m := &Maker{w: w, Name: name, Decide: decide}
	w.mu.Lock()
	w.makers[name] = m
	w.mu.Unlock()
	return m
}

func (m *Maker) MakeDecision(ctx vivid.SupervisionContext) (vivid.SupervisionDecision, string) {
	m.mu.Lock()
	n := len(m.Calls)
	m.mu.Unlock()
	d := m.Decide(n, ctx)
	c := MakerCall{Step: vsimrt.Step(), Fault: fmt.Sprint(ctx.Fault()), Decision: d}
	if f := ctx.Child().First(); f != nil {
		c.Child = f.GetPath()
	}
	for _, k := range ctx.Children() {
		c.Children = append(c.Children, k.GetPath())
	}
	sort.Strings(c.Children)
	m.mu.Lock()
	m.Calls = append(m.Calls, c)
	m.mu.Unlock()
	m.w.rec(Event{Path: "@maker:" + m.Name, Kind: "Decision", Ref: c.Child, Info: d.String() + " fault=" + c.Fault})
	return d, "scripted"
}

func (m *Maker) CallList() []MakerCall {
	m.mu.Lock()
	defer m.mu.Unlock()
	return append([]MakerCall(nil), m.Calls...)
}

// ---- helpers for oracles ----

func filter(evs []Event, f func(Event) bool) []Event {
	var out []Event
	for _, e := range evs {
		if f(e) {
			out = append(out, e)
		}
	}
	return out
}

func fmtEvents(evs []Event, max int) string {
	var sb strings.Builder
	for i, e := range evs {
		if i >= max {
			fmt.Fprintf(&sb, "... %d more", len(evs)-max)
			break
		}
		sb.WriteString(e.String())
		sb.WriteString("; ")
	}
	return sb.String()
}

// StopWorld stops the system (bounded) and reports a hang as a violation of the calling property.
func (w *World) Stop(timeout time.Duration) error {
	w.r.Waiting("ActorSystem.Stop")
	err := w.Sys.Stop(timeout)
	vsimrt.Yield()
	return err
}

// tell sends a Cmd from outside the system.
func (w *World) Tell(to vivid.ActorRef, c *Cmd) { w.Sys.Tell(to, c) }

func (w *World) NewCmd(sender string, seq int, do func(ctx vivid.ActorContext, p *Probe)) *Cmd {
	return &Cmd{ID: w.NewID(), Sender: sender, Seq: seq, Do: do}
}

// DumpNotes appends the event log to the run's notes (shown by `vcheck replay`).
func (w *World) DumpNotes(max int) {
	for i, e := range w.Events() {
		if i >= max {
			break
		}
		w.r.Note("%s", e.String())
	}
}
