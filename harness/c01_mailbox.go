//go:build vsim

package vsimharness

import (
	"fmt"
	"sort"
	"sync"
	"time"

	"github.com/kercylan98/vivid"
	"github.com/kercylan98/vivid/internal/mailbox"
	vsimrt "vsimrt/simrt"
)

// C01 - component simulation of the real UnboundedMailbox over the real RingQueue (DESIGN.md 3, C01).

func init() {
	register(&Workload{Prop: "C01", Variant: "mailbox", Horizon: time.Minute, MaxSteps: 30000, MaxG: 512, Spin: 500, PCTLen: 250, Race: true, Weight: 4, Body: c01Mailbox})
	register(&Workload{Prop: "C01", Variant: "resume-race", Horizon: time.Minute, MaxSteps: 30000, MaxG: 512, Spin: 500, PCTLen: 150, Weight: 1, Body: c01ResumeRace})
}

type c01Env struct {
	id     int
	system bool
	action int // 0 none, 1 pause self, 2 resume self, 3 enqueue user, 4 enqueue system
}

func (e *c01Env) Sender() vivid.ActorRef   { return nil }
func (e *c01Env) Receiver() vivid.ActorRef { return nil }
func (e *c01Env) Message() vivid.Message   { return e.id }
func (e *c01Env) System() bool             { return e.system }

type c01State struct {
	r  *R
	mb *mailbox.UnboundedMailbox

	mu          sync.Mutex
	inflight    int
	handled     map[int]int
	order       []int
	nextID      int
	all         map[int]*c01Env
	resStarted  int
	resFinished int
	// pause bookkeeping: value of resFinished when the most recent pause completed, -1 if none since the last resume
	selfPauseAt  int
	extPauseAt   int
	userSinceExt int
	pausesDone   int
}

func (s *c01State) newEnv(system bool, action int) *c01Env {
	s.mu.Lock()
	s.nextID++
	e := &c01Env{id: s.nextID, system: system, action: action}
	s.all[e.id] = e
	s.mu.Unlock()
	return e
}

func (s *c01State) pause(self bool) {
	s.mb.Pause()
	s.mu.Lock()
	s.pausesDone++
	if self {
		s.selfPauseAt = s.resFinished
	} else {
		s.extPauseAt = s.resFinished
		s.userSinceExt = 0
	}
	s.mu.Unlock()
}

func (s *c01State) resume() {
	s.mu.Lock()
	s.resStarted++
	s.mu.Unlock()
	s.mb.Resume()
	s.mu.Lock()
	s.resFinished++
	s.mu.Unlock()
}

func (s *c01State) HandleEnvelop(envelop vivid.Envelop) {
	e := envelop.(*c01Env)
	vsimrt.Progress()
	s.mu.Lock()
	if s.inflight != 0 {
		s.mu.Unlock()
		s.r.Fail("C01/overlap", "handler entered for envelope %d while another handler invocation is in progress", e.id)
		return
	}
	s.inflight++
	s.handled[e.id]++
	s.order = append(s.order, e.id)
	dup := s.handled[e.id] > 1
	var bad string
	if !e.system {
		// a user envelope starts: is the mailbox provably paused?
		if s.selfPauseAt >= 0 && s.resStarted == s.selfPauseAt {
			bad = "C01/user-handled-while-self-paused"
		}
		if s.extPauseAt >= 0 && s.resStarted == s.extPauseAt {
			s.userSinceExt++
			if s.userSinceExt > 1 {
				bad = "C01/user-handled-while-paused"
			}
		}
	}
	s.mu.Unlock()
	if dup {
		s.r.Fail("C01/duplicate", "envelope %d handed to the handler twice", e.id)
	}
	if bad != "" {
		s.r.Fail(bad, "user envelope %d was handled although Pause() had completed and no Resume() was invoked since", e.id)
	}
	switch e.action {
	case 1:
		s.r.Count("handler-pause-self")
		s.pause(true)
	case 2:
		s.r.Count("handler-resume-self")
		s.resume()
	case 3:
		s.r.Count("handler-enqueue-user")
		s.mb.Enqueue(s.newEnv(false, 0))
	case 4:
		s.r.Count("handler-enqueue-system")
		s.mb.Enqueue(s.newEnv(true, 0))
	}
	vsimrt.Yield()
	s.mu.Lock()
	s.inflight--
	s.mu.Unlock()
}

func c01Mailbox(r *R) {
	st := &c01State{r: r, handled: map[int]int{}, all: map[int]*c01Env{}, selfPauseAt: -1, extPauseAt: -1}
	size := []int64{2, 3, 4, 256}[r.Choose(4)]
	st.mb = mailbox.NewUnboundedMailbox(size, st)
	nSenders := 1 + r.Choose(4)
	nCtl := r.Choose(3)
	type plan struct{ envs []*c01Env }
	var plans []plan
	desc := map[string]any{"ring": size, "senders": nSenders, "controllers": nCtl}
	var sdesc []string
	for i := 0; i < nSenders; i++ {
		n := 1 + r.Choose(6)
		var p plan
		d := ""
		for k := 0; k < n; k++ {
			sys := r.Chance(30)
			act := 0
			if r.Chance(35) {
				act = 1 + r.Choose(4)
			}
			p.envs = append(p.envs, st.newEnv(sys, act))
			d += fmt.Sprintf("%s%d ", map[bool]string{true: "S", false: "U"}[sys], act)
		}
		plans = append(plans, p)
		sdesc = append(sdesc, d)
	}
	desc["envelopes(S=system,U=user + handler action)"] = sdesc
	var cdesc []string
	ctl := make([][]int, nCtl)
	for i := range ctl {
		n := 1 + r.Choose(3)
		d := ""
		for k := 0; k < n; k++ {
			op := r.Choose(2)
			ctl[i] = append(ctl[i], op)
			d += []string{"Pause ", "Resume "}[op]
		}
		cdesc = append(cdesc, d)
	}
	desc["controllers_ops"] = cdesc
	r.Sample(desc)

	var wg sync.WaitGroup
	for _, p := range plans {
		p := p
		wg.Add(1)
		vsimrt.Go("c01.sender", func() {
			defer wg.Done()
			for _, e := range p.envs {
				st.mb.Enqueue(e)
			}
		})
	}
	for _, ops := range ctl {
		ops := ops
		wg.Add(1)
		vsimrt.Go("c01.controller", func() {
			defer wg.Done()
			for _, op := range ops {
				if op == 0 {
					r.Count("external-pause")
					st.pause(false)
				} else {
					r.Count("external-resume")
					st.resume()
				}
			}
		})
	}
	r.Waiting("senders and controllers to finish")
	wg.Wait()
	vsimrt.Yield()
	r.Waiting("quiescence")
	vsimrt.Settle()
	if r.Failed() {
		return
	}
	// quiescence #1
	paused := st.mb.IsPaused()
	st.mu.Lock()
	var missSys, missUser []int
	for id, e := range st.all {
		if st.handled[id] == 0 {
			if e.system {
				missSys = append(missSys, id)
			} else {
				missUser = append(missUser, id)
			}
		}
	}
	st.mu.Unlock()
	sort.Ints(missSys)
	sort.Ints(missUser)
	if len(missSys) > 0 {
		r.Fail("C01/system-envelope-not-processed", "at quiescence (paused=%v) system envelopes %v were accepted but never handed to the handler", paused, missSys)
		return
	}
	if !paused && len(missUser) > 0 {
		r.Fail("C01/lost-wakeup", "at quiescence the mailbox is not paused but user envelopes %v were never handled (no consumer is running)", missUser)
		return
	}
	if paused {
		r.Count("quiescent-paused")
		if len(missUser) > 0 {
			r.Count("quiescent-paused-with-user-mail")
		}
	}
	// phase 2: resume, everything must drain
	st.resume()
	vsimrt.Settle()
	if r.Failed() {
		return
	}
	st.mu.Lock()
	var miss []int
	for id := range st.all {
		if st.handled[id] == 0 {
			miss = append(miss, id)
		}
	}
	st.mu.Unlock()
	// a handler may have paused again during phase 2; resume until drained (bounded by the number of pause actions)
	for k := 0; k < 30 && len(miss) > 0 && st.mb.IsPaused(); k++ {
		st.resume()
		vsimrt.Settle()
		st.mu.Lock()
		miss = miss[:0]
		for id := range st.all {
			if st.handled[id] == 0 {
				miss = append(miss, id)
			}
		}
		st.mu.Unlock()
	}
	if len(miss) > 0 && !r.Failed() {
		r.Fail("C01/not-processed-after-resume", "after the final Resume envelopes %v were still not handled (paused=%v)", miss, st.mb.IsPaused())
	}
}

// c01ResumeRace aims at the consumer's wind-down: in every round the mailbox is paused with one user envelope
// pending, a system envelope makes a consumer run and leave again, and Resume() arrives from another goroutine at a
// scheduler-chosen point of that wind-down. Nothing is enqueued afterwards, so a Resume that wakes nobody shows as a
// user envelope that is never handled although the mailbox is not paused.
func c01ResumeRace(r *R) {
	st := &c01State{r: r, handled: map[int]int{}, all: map[int]*c01Env{}, selfPauseAt: -1, extPauseAt: -1}
	st.mb = mailbox.NewUnboundedMailbox(int64(1+r.Choose(4)), st)
	rounds := 3 + r.Choose(6)
	r.Sample(map[string]any{"rounds": rounds})
	for k := 0; k < rounds; k++ {
		st.pause(false)
		nUser := 1 + r.Choose(2)
		withSystem := r.Chance(70)
		var wg sync.WaitGroup
		wg.Add(2)
		vsimrt.Go("c01.rr-sender", func() {
			defer wg.Done()
			for i := 0; i < nUser; i++ {
				st.mb.Enqueue(st.newEnv(false, 0))
			}
			if withSystem {
				st.mb.Enqueue(st.newEnv(true, 0))
			}
		})
		vsimrt.Go("c01.rr-resumer", func() {
			defer wg.Done()
			for i, n := 0, r.Choose(12); i < n; i++ {
				vsimrt.Yield()
			}
			st.resume()
		})
		r.Waiting("round")
		wg.Wait()
		vsimrt.Yield()
		vsimrt.Settle()
		if r.Failed() {
			return
		}
		st.mu.Lock()
		var miss []int
		for id := range st.all {
			if st.handled[id] == 0 {
				miss = append(miss, id)
			}
		}
		st.mu.Unlock()
		sort.Ints(miss)
		if len(miss) > 0 {
			cls := "C01/lost-wakeup"
			if st.mb.IsPaused() {
				cls = "C01/harness"
			}
			r.Fail(cls, "round %d: Resume() returned, the mailbox is not paused, nothing else is running, but envelopes %v were never handled", k, miss)
			return
		}
		r.Count("resume-race-round")
	}
}
