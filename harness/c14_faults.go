//go:build vsim

package vsimharness

import (
	"encoding/binary"
	"fmt"
	"io"
	"net"
	"sync"
	"time"

	"github.com/kercylan98/vivid"
	"github.com/kercylan98/vivid/internal/actor"
	"github.com/kercylan98/vivid/internal/mailbox"
	"github.com/kercylan98/vivid/internal/messages"
	"github.com/kercylan98/vivid/internal/remoting/serialize"
	"vsimrt/simnet"
	vsimrt "vsimrt/simrt"
)

// C14 - remoting under connection faults: never corrupt, duplicate or reorder; dead letters; recover; Tell never
// blocks (DESIGN.md 3, C14).

func init() {
	register(&Workload{Prop: "C14", Variant: "cut-enum", Horizon: 30 * time.Minute, MaxSteps: 1500000, MaxG: 8192, Spin: 40000, PCTLen: 8000, Weight: 6, Body: c14CutEnum})
	register(&Workload{Prop: "C14", Variant: "refuse-restart", Horizon: 30 * time.Minute, MaxSteps: 1500000, MaxG: 8192, Spin: 40000, PCTLen: 8000, Weight: 3, Body: c14RefuseRestart})
	register(&Workload{Prop: "C14", Variant: "bad-frames", Horizon: 30 * time.Minute, MaxSteps: 1500000, MaxG: 8192, Spin: 40000, PCTLen: 8000, Weight: 2, Body: c14BadFrames})
	register(&Workload{Prop: "C14", Variant: "two-faults", Horizon: 30 * time.Minute, MaxSteps: 1500000, MaxG: 8192, Spin: 40000, PCTLen: 8000, Weight: 2, Body: c14TwoFaults})
	register(&Workload{Prop: "C14", Variant: "oversize", Horizon: 30 * time.Minute, MaxSteps: 3000000, MaxG: 8192, Spin: 40000, PCTLen: 8000, Weight: 1, Body: c14Oversize})
	register(&Workload{Prop: "C14", Variant: "tell-latency", Horizon: 30 * time.Minute, MaxSteps: 1500000, MaxG: 8192, Spin: 40000, PCTLen: 8000, Weight: 1, Body: c14TellLatency})
}

var c14Sizes = []int{0, 10, 300, 5, 2000}

const c14AddrA, c14AddrB = "127.0.0.1:9101", "127.0.0.1:9102"

// length of the stream A->B: handshake + frames (computed from the real encoder)
func c14FrameLen(from string, seq int64, size int) int {
	a, _ := actor.NewRef(c14AddrA, "/")
	b, _ := actor.NewRef(c14AddrB, "/sink")
	data, err := serialize.EncodeEnvelopWithRemoting(nil, mailbox.NewEnvelop(false, a, b, newRMsg(from, seq, size, 0)))
	if err != nil {
		panic(err)
	}
	return 4 + len(data)
}

func c14Retry(r *R, ord int) RNodeOpt {
	return RNodeOpt{ReconnectLimit: []int{0, 1, 3}[ord%3], InitialDelay: 50 * time.Millisecond, MaxDelay: 200 * time.Millisecond, Jitter: (ord/3)%2 == 1}
}

// checks shared by the variants: subsequence, no duplicate, no corruption, dead-letter accounting
func c14CheckFlow(r *R, a, b *RNode, from string, sent int, what string) (received map[int64]bool, ok bool) {
	received = map[int64]bool{}
	last := int64(-1)
	for _, g := range b.Recv("sink") {
		r.Note("recv %s#%d ok=%v at=%v", g.From, g.Seq, g.OK, g.At)
	}
	a.mu.Lock()
	r.Note("sender dead letters: %v; connection-failed events: %d", a.deadLetters, a.connFailed)
	a.mu.Unlock()
	for _, g := range b.Recv("sink") {
		if g.From != from {
			continue
		}
		if !g.OK {
			r.Fail("C14/corrupted "+what, "message %s#%d arrived with a damaged payload", from, g.Seq)
			return nil, false
		}
		if received[g.Seq] {
			r.Fail("C14/duplicated "+what, "message %s#%d was delivered twice (%s)", from, g.Seq, what)
			return nil, false
		}
		if g.Seq < last {
			cls := "C14/reordered " + what
			if st := simnet.Current().StatsCopy(); st.Dials >= 2 {
				cls = "C14/reordered across-reconnect"
			}
			r.Fail(cls, "message %s#%d was delivered after #%d (%s; connections dialled so far: %d): frames still unread on the old connection were overtaken by frames sent on the new one", from, g.Seq, last, what, simnet.Current().StatsCopy().Dials)
			return nil, false
		}
		if g.Seq >= int64(sent) || g.Seq < 0 {
			r.Fail("C14/invented "+what, "message %s#%d was never sent", from, g.Seq)
			return nil, false
		}
		last = g.Seq
		received[g.Seq] = true
	}
	a.mu.Lock()
	dls := append([]string(nil), a.deadLetters...)
	a.mu.Unlock()
	seen := map[string]int{}
	for _, d := range dls {
		seen[d]++
	}
	for k := 0; k < sent; k++ {
		key := fmt.Sprintf("%s#%d", from, k)
		if seen[key] > 1 {
			r.Fail("C14/dead-letter-duplicated "+what, "message %s was reported %d times as a dead letter on the sender", key, seen[key])
			return nil, false
		}
		if seen[key] == 1 && received[int64(k)] {
			r.Fail("C14/delivered-and-dead-lettered "+what, "message %s reached the remote actor and was also reported as a dead letter", key)
			return nil, false
		}
	}
	return received, true
}

// bounded liveness: after the last fault numbered messages are sent at intervals; the last three must arrive in order
func c14Liveness(r *R, a, b *RNode, from string, n int, every time.Duration, what string) bool {
	var ref vivid.ActorRef
	a.Do(func() { ref, _ = a.Sys.CreateRef(b.Addr, "/sink") })
	for k := 0; k < n; k++ {
		a.Do(func() { a.Sys.Tell(ref, newRMsg(from, int64(k), 16, 0)) })
		vsimrt.Sleep(every)
	}
	vsimrt.SettleFor(2 * time.Second)
	got, ok := c14CheckFlow(r, a, b, from, n, what)
	if !ok {
		return false
	}
	for k := n - 3; k < n; k++ {
		if !got[int64(k)] {
			r.Fail("C14/no-recovery "+what, "after the last fault %d messages were sent every %v for %v; of the last three, #%d never arrived (arrived: %v)", n, every, time.Duration(n)*every, k, keys64(got))
			return false
		}
	}
	return true
}

func keys64(m map[int64]bool) []int64 {
	var out []int64
	for k := int64(0); k < 1000; k++ {
		if m[k] {
			out = append(out, k)
		}
	}
	return out
}

func gcd(a, b int) int {
	for b != 0 {
		a, b = b, a%b
	}
	return a
}

func c14CutEnum(r *R) {
	// stream layout
	hs := 4 + len(c14AddrB) // client handshake carries the advertised address of the mailbox (the peer's)
	total := hs
	var bounds []int
	for i, sz := range c14Sizes {
		total += c14FrameLen("m", int64(i), sz)
		bounds = append(bounds, total)
	}
	// Enumeration of the cut offset from the run ordinal. Even ordinals walk the short list of "structural" offsets
	// (every byte of the handshake, every byte of every length prefix, every frame boundary, and the no-cut control)
	// and advance the other dimensions each time the list wraps; odd ordinals walk the body offsets with a stride
	// coprime to their number. A quick batch therefore visits every structural offset with many combinations and a
	// spread of body offsets; the thorough tier wraps both lists several times.
	var prio, body []int
	isPrio := map[int]bool{}
	for o := 0; o <= hs; o++ {
		isPrio[o] = true
	}
	prev := hs
	for _, bd := range bounds {
		for o := prev; o <= prev+4; o++ {
			isPrio[o] = true
		}
		isPrio[bd] = true
		prev = bd
	}
	isPrio[total+1] = true // no cut at all (control)
	for o := 0; o <= total+1; o++ {
		if isPrio[o] {
			prio = append(prio, o)
		} else {
			body = append(body, o)
		}
	}
	ord := r.Index
	var offset, rest int
	if ord%2 == 0 {
		i := ord / 2
		offset, rest = prio[i%len(prio)], i/len(prio)
	} else {
		i := ord / 2
		stride := 37
		for gcd(stride, len(body)) != 1 {
			stride++
		}
		offset, rest = body[(i*stride)%len(body)], i/len(body)+i%4*5
	}
	rst := rest%2 == 1
	late := (rest/2)%2 == 1
	reverse := (rest/4)%5 == 4 // occasionally cut the listener->dialler direction (handshake reply)
	nw := simnet.New()
	nw.ChunkMode = simnet.ChunkMixed
	if late {
		nw.LateWriteErr = 100
	} else {
		nw.LateWriteErr = 0
	}
	// the retry setting changes from one offset to the next and is shifted by one each time the list of offsets wraps, so
	// that a quick batch already combines cuts inside a frame with "attempts left" (it used to advance only after 20 wraps:
	// the quick tier ran every cut with ReconnectLimit 0)
	opt := c14Retry(r, ord/2+rest)
	a := StartRNode(r, nw, 1, c14AddrA, opt)
	if r.Failed() {
		return
	}
	b := StartRNode(r, nw, 2, c14AddrB, opt)
	if r.Failed() {
		return
	}
	b.Sink("sink")
	vsimrt.Settle()
	where := "no-cut"
	if offset <= total {
		p := &simnet.CutPlan{Offset: offset, RST: rst, Reverse: reverse}
		if reverse {
			p.Offset = offset % (4 + len(c14AddrA) + 1)
		}
		nw.PlanCut(c14AddrB, p)
		switch {
		case reverse:
			where = "handshake-reply"
		case offset < hs:
			where = "inside-handshake"
		default:
			where = "between-frames"
			prev := hs
			for _, bd := range bounds {
				if offset > prev && offset < prev+4 {
					where = "inside-length-prefix"
				} else if offset >= prev+4 && offset < bd {
					where = "inside-body"
				}
				prev = bd
			}
		}
	}
	r.Count("cut-position:" + where)
	r.Sample(map[string]any{"cut_offset": offset, "stream_bytes": total, "where": where, "rst": rst, "writer_learns_one_write_late": late, "reconnect_limit": opt.ReconnectLimit, "jitter": opt.Jitter})
	var ref vivid.ActorRef
	a.Do(func() { ref, _ = a.Sys.CreateRef(b.Addr, "/sink") })
	for i, sz := range c14Sizes {
		a.Do(func() { a.Sys.Tell(ref, newRMsg("m", int64(i), sz, 0)) })
	}
	vsimrt.SettleFor(time.Second)
	what := "cut=" + where
	received, ok := c14CheckFlow(r, a, b, "m", len(c14Sizes), what)
	if !ok {
		return
	}
	// A cut that the writer learns at once (the failing Write returns the error) and that lets the reader drain what was
	// written before it (end of stream, not a reset): nothing is lost legitimately - everything written before the cut is
	// read, the write that failed is repeated on the next connection while attempts are left. So every message is either
	// delivered or, attempts exhausted, reported as a dead letter.
	if offset <= total && !late && !rst && !reverse && offset >= hs && opt.ReconnectLimit >= 1 {
		a.mu.Lock()
		dls := map[string]bool{}
		for _, d := range a.deadLetters {
			dls[d] = true
		}
		a.mu.Unlock()
		for k := range c14Sizes {
			if !received[int64(k)] && !dls[fmt.Sprintf("m#%d", k)] {
				r.Fail("C14/lost-without-dead-letter "+what, "message m#%d was neither delivered nor reported as a dead letter although the write that failed returned its error at once, the stream written before the cut (offset %d, end of stream) could be read to its end, and reconnect attempts were left (limit %d)", k, offset, opt.ReconnectLimit)
				return
			}
		}
		r.Count("cut-with-immediate-error: every message accounted for")
	}
	if !c14Liveness(r, a, b, "p", 6, 500*time.Millisecond, what) {
		return
	}
	netFaultCounts(r, nw)
	_ = a.Stop()
	_ = b.Stop()
}

func c14RefuseRestart(r *R) {
	nw := simnet.New()
	nw.ChunkMode = simnet.ChunkMixed
	opt := c14Retry(r, r.Index)
	a := StartRNode(r, nw, 1, c14AddrA, opt)
	if r.Failed() {
		return
	}
	b := StartRNode(r, nw, 2, c14AddrB, opt)
	if r.Failed() {
		return
	}
	b.Sink("sink")
	vsimrt.Settle()
	mode := r.Choose(3) // 0 refuse for a period, 1 peer restart (graceful stop + new system on the same address), 2 mid-stream reset of all connections
	period := []time.Duration{100 * time.Millisecond, 700 * time.Millisecond, 3 * time.Second}[r.Choose(3)]
	n := 6 + r.Choose(20)
	every := []time.Duration{0, 20 * time.Millisecond, 150 * time.Millisecond}[r.Choose(3)]
	faultAt := r.Choose(n)
	r.Sample(map[string]any{"mode": []string{"refuse", "peer-restart", "reset-all"}[mode], "period": period.String(), "messages": n, "interval": every.String(), "fault_before_message": faultAt, "reconnect_limit": opt.ReconnectLimit})
	var ref vivid.ActorRef
	a.Do(func() { ref, _ = a.Sys.CreateRef(c14AddrB, "/sink") })
	var wg sync.WaitGroup
	wg.Add(1)
	cur := b
	var curMu sync.Mutex
	vsimrt.Go("c14.sender", func() {
		defer wg.Done()
		for k := 0; k < n; k++ {
			a.Do(func() { a.Sys.Tell(ref, newRMsg("m", int64(k), 32, 0)) })
			if every > 0 {
				vsimrt.Sleep(every)
			}
		}
	})
	// the fault is placed relative to simulated time so that it lands inside the stream
	vsimrt.Sleep(time.Duration(faultAt) * every)
	switch mode {
	case 0:
		nw.Refuse(c14AddrB, true)
		nw.CutAll(1, 2)
		vsimrt.Sleep(period)
		nw.Refuse(c14AddrB, false)
		r.Count("fault:refuse-period")
	case 1:
		_ = b.Stop()
		if r.Chance(60) {
			nw.CrashNode(2) // the peer *process* is gone: its operating system closes the sockets it left open
		} else {
			// the peer system is stopped and started again inside a process that lives on (an embedded system, a test): nobody
			// closes what Stop left open
			r.Count("fault:peer-restart-inside-a-living-process")
		}
		vsimrt.Sleep(period)
		nb := StartRNode(r, nw, 3, c14AddrB, opt)
		if r.Failed() {
			return
		}
		nb.Sink("sink")
		curMu.Lock()
		cur = nb
		curMu.Unlock()
		r.Count("fault:peer-restart")
	case 2:
		nw.CutAll(1, 2)
	}
	r.Waiting("sender")
	wg.Wait()
	vsimrt.Yield()
	vsimrt.SettleFor(2 * time.Second)
	what := "fault=" + []string{"refuse", "peer-restart", "reset-all"}[mode]
	// messages may have been received by the old or the new incarnation of B: merge
	curMu.Lock()
	nb := cur
	curMu.Unlock()
	if nb != b {
		nb.mu.Lock()
		b.mu.Lock()
		b.recv["sink"] = append(b.recv["sink"], nb.recv["sink"]...)
		b.mu.Unlock()
		nb.mu.Unlock()
	}
	if _, ok := c14CheckFlow(r, a, b, "m", n, what); !ok {
		return
	}
	if nb != b {
		nb.mu.Lock()
		nb.recv["sink"] = nil
		nb.mu.Unlock()
	}
	if !c14Liveness(r, a, nb, "p", 6, 500*time.Millisecond, what) {
		return
	}
	netFaultCounts(r, nw)
	_ = a.Stop()
	_ = nb.Stop()
}

// a fake peer speaks the wire protocol directly
func c14BadFrames(r *R) {
	nw := simnet.New()
	nw.ChunkMode = simnet.ChunkMixed
	b := StartRNode(r, nw, 2, c14AddrB, RNodeOpt{ReconnectLimit: -1})
	if r.Failed() {
		return
	}
	b.Sink("sink")
	vsimrt.Settle()
	vsimrt.SetTag(1)
	// before the well-behaved fake peer: in some runs a client that misbehaves during the handshake; the acceptor must go on
	// accepting afterwards
	if bad := r.Choose(6); bad > 0 {
		kinds := []string{"", "connects and closes", "garbage instead of a handshake", "half a handshake, then silence", "handshake with length zero", "handshake with an absurd length"}
		r.Count("fault:bad-handshake " + kinds[bad])
		if bc, err := nw.InjectRaw(c14AddrB); err == nil {
			switch bad {
			case 2:
				_, _ = bc.Write([]byte("GET / HTTP/1.1\r\nHost: x\r\n\r\n"))
			case 3:
				_, _ = bc.Write([]byte{0, 0})
				vsimrt.SettleFor(300 * time.Millisecond)
			case 4:
				_, _ = bc.Write([]byte{0, 0, 0, 0})
			case 5:
				_, _ = bc.Write([]byte{0x7f, 0xff, 0xff, 0xff, 1, 2, 3})
			}
			vsimrt.SettleFor(50 * time.Millisecond)
			_ = bc.Close()
			vsimrt.SettleFor(200 * time.Millisecond)
		}
		if r.Failed() {
			return
		}
	}
	conn, err := nw.InjectRaw(c14AddrB)
	if err != nil {
		r.Fail("C14/no-new-connection-after-bad-handshake", "after a client that misbehaved during the handshake the acceptor refuses new connections: %v", err)
		return
	}
	// handshake: 4-byte length + advertised address, then read the reply
	hs := binary.BigEndian.AppendUint32(nil, uint32(len(c14AddrA)))
	hs = append(hs, c14AddrA...)
	if _, err := conn.Write(hs); err != nil {
		r.Fail("C14/harness", "fake peer handshake write: %v", err)
		return
	}
	reply := make([]byte, 4)
	if _, err := io.ReadFull(conn, reply); err != nil {
		r.Fail("C14/handshake-reply-missing", "the acceptor did not answer a valid handshake: %v", err)
		return
	}
	rest := make([]byte, binary.BigEndian.Uint32(reply))
	if _, err := io.ReadFull(conn, rest); err != nil {
		r.Fail("C14/handshake-reply-missing", "the acceptor's handshake reply was truncated: %v", err)
		return
	}
	frame := func(seq int64, size int) []byte {
		a, _ := actor.NewRef(c14AddrA, "/fake")
		bb, _ := actor.NewRef(c14AddrB, "/sink")
		data, err := serialize.EncodeEnvelopWithRemoting(nil, mailbox.NewEnvelop(false, a, bb, newRMsg("x", seq, size, 0)))
		if err != nil {
			panic(err)
		}
		return append(binary.BigEndian.AppendUint32(nil, uint32(len(data))), data...)
	}
	kind := r.Choose(5)
	kinds := []string{"undecodable-body", "length-over-4MiB", "flipped-byte", "unknown-message-name", "truncated-then-close"}
	r.Sample(map[string]any{"bad_frame": kinds[kind]})
	r.Count("fault:bad-frame " + kinds[kind])
	send := func(p []byte) bool {
		if _, err := conn.Write(p); err != nil {
			r.Note("fake peer write: %v", err)
			return false
		}
		return true
	}
	send(frame(0, 20))
	expectAfter := true
	newConn := false
	switch kind {
	case 0:
		body := []byte{0xff, 0xff, 0xff, 0xf0, 1, 2, 3, 4, 5, 6, 7, 8}
		send(append(binary.BigEndian.AppendUint32(nil, uint32(len(body))), body...))
	case 1:
		send(binary.BigEndian.AppendUint32(nil, 5*1024*1024)) // only the bogus prefix: the receiver rejects it and keeps reading
	case 2:
		f := frame(100, 50)
		f[len(f)/2] ^= 0x40
		send(f)
		// a flipped byte may corrupt the payload (checksum catches it), the name, or a length inside the frame
	case 3:
		w := messages.NewWriterFromPool()
		w.WriteBytesWithLength([]byte{1, 2, 3}, 4)
		_ = w.WriteFrom("noSuchMessageName", false, c14AddrA, "/fake", c14AddrB, "/sink")
		body := append([]byte(nil), w.Bytes()...)
		messages.ReleaseWriterToPool(w)
		send(append(binary.BigEndian.AppendUint32(nil, uint32(len(body))), body...))
	case 4:
		f := frame(100, 500)
		send(f[:len(f)/2])
		_ = conn.Close()
		newConn = true
		_ = expectAfter
	}
	vsimrt.SettleFor(200 * time.Millisecond)
	if newConn {
		// later frames arrive on a new connection
		c2, err := nw.InjectRaw(c14AddrB)
		if err != nil {
			r.Fail("C14/no-new-connection-after-bad-frame", "after a truncated frame and close the acceptor refuses new connections: %v", err)
			return
		}
		_, _ = c2.Write(hs)
		if _, err := io.ReadFull(c2, reply); err != nil {
			r.Fail("C14/no-new-connection-after-bad-frame", "handshake on a new connection failed after a truncated frame: %v", err)
			return
		}
		_, _ = io.ReadFull(c2, make([]byte, binary.BigEndian.Uint32(reply)))
		conn = c2
	}
	for k := int64(1); k <= 3; k++ {
		send(frame(k, 30))
	}
	vsimrt.SettleFor(500 * time.Millisecond)
	got := map[int64]bool{}
	for _, g := range b.Recv("sink") {
		if g.From != "x" {
			continue
		}
		if !g.OK && g.Seq != 100 {
			r.Fail("C14/corrupted bad-frame="+kinds[kind], "valid frame #%d was delivered with a damaged payload", g.Seq)
			return
		}
		if g.Seq == 100 {
			continue // the deliberately damaged frame itself: the wire format carries no checksum, nothing is promised about it
		}
		if got[g.Seq] {
			r.Fail("C14/duplicated bad-frame="+kinds[kind], "frame #%d delivered twice", g.Seq)
			return
		}
		got[g.Seq] = true
	}
	if !got[0] {
		r.Fail("C14/valid-frame-lost bad-frame="+kinds[kind], "the valid frame sent before the bad one was not delivered")
		return
	}
	if kind != 2 { // after a flipped byte inside a length field the stream may legitimately be beyond repair on that connection
		for k := int64(1); k <= 3; k++ {
			if !got[k] {
				r.Fail("C14/bad-frame-stops-later-frames kind="+kinds[kind], "after a %s frame, valid frame #%d sent later was never delivered (delivered: %v)", kinds[kind], k, keys64(got))
				return
			}
		}
	}
	netFaultCounts(r, nw)
	_ = b.Stop()
	var _ net.Conn = conn
}

// Tell returns promptly even when the peer is unreachable, and the sending actor keeps processing its mailbox
func c14TellLatency(r *R) {
	nw := simnet.New()
	opt := RNodeOpt{ReconnectLimit: []int{1, 3, 10}[r.Choose(3)], InitialDelay: 100 * time.Millisecond, MaxDelay: time.Second, Jitter: r.Chance(50)}
	a := StartRNode(r, nw, 1, c14AddrA, opt)
	if r.Failed() {
		return
	}
	unreachable := r.Choose(2) // 0 nobody listens, 1 blackhole (dial hangs)
	if unreachable == 1 {
		nw.Blackhole(c14AddrB, true)
	}
	r.Sample(map[string]any{"reconnect_limit": opt.ReconnectLimit, "unreachable": []string{"refused", "blackhole"}[unreachable]})
	var mu sync.Mutex
	var tellTook time.Duration = -1
	var localAt, tellStart time.Duration = -1, -1
	t0 := time.Now()
	type local struct{}
	type goMsg struct{}
	var self vivid.ActorRef
	a.Do(func() {
		self, _ = a.Sys.ActorOf(vivid.ActorFN(func(ctx vivid.ActorContext) {
			switch ctx.Message().(type) {
			case goMsg:
				ref, _ := ctx.System().CreateRef(c14AddrB, "/sink")
				s := time.Since(t0)
				ctx.Tell(ref, newRMsg("t", 0, 8, 0))
				vsimrt.Yield()
				mu.Lock()
				tellStart = s
				tellTook = time.Since(t0) - s
				mu.Unlock()
			case local:
				mu.Lock()
				localAt = time.Since(t0)
				mu.Unlock()
			}
		}), vivid.WithActorName("teller"))
	})
	vsimrt.Settle()
	a.Do(func() {
		a.Sys.Tell(self, goMsg{})
		a.Sys.Tell(self, local{})
	})
	r.Waiting("the telling actor")
	vsimrt.SettleFor(2 * time.Minute)
	mu.Lock()
	defer mu.Unlock()
	if tellTook < 0 {
		r.Fail("C14/tell-never-returned", "Tell to an unreachable peer had not returned after 2 simulated minutes")
		return
	}
	if tellTook > 0 {
		r.Fail("C14/tell-blocks-caller unreachable="+[]string{"refused", "blackhole"}[unreachable], "ctx.Tell to an unreachable peer (%s) took %v of simulated time on the calling actor's goroutine (reconnect limit %d); a local message queued behind it was processed at %v (Tell started at %v)", []string{"connection refused", "dial hangs"}[unreachable], tellTook, opt.ReconnectLimit, localAt, tellStart)
		return
	}
	if localAt != tellStart {
		r.Fail("C14/local-mail-delayed-by-remote-retries", "local mail of the telling actor was processed at %v although the Tell returned at %v", localAt, tellStart)
		return
	}
	_ = a.Stop()
}

// c14Oversize: a frame with an invalid length produced by the library itself - a real sender is told a message whose
// encoding exceeds the 4 MiB frame limit, between ordinary messages on a healthy connection. The receiver cannot use such
// a frame; whatever the library does with it, the ordinary messages before and after it must arrive exactly once, in
// order and intact, nothing may be decoded from the oversized frame's body, and the oversized message itself is either
// delivered intact or reported as a dead letter on the sending side (exactly once, not both, not silently dropped).
func c14Oversize(r *R) {
	nw := simnet.New()
	nw.ChunkMode = []int{simnet.ChunkAll, simnet.ChunkUniform, simnet.ChunkFrame}[r.Choose(3)]
	opt := c14Retry(r, r.Index)
	a := StartRNode(r, nw, 1, c14AddrA, opt)
	if r.Failed() {
		return
	}
	b := StartRNode(r, nw, 2, c14AddrB, opt)
	if r.Failed() {
		return
	}
	b.Sink("sink")
	vsimrt.Settle()
	const limit = 4 * 1024 * 1024
	n := 4 + r.Choose(6)
	bigAt := 1 + r.Choose(n-2)
	over := []int{-200, 1, 64, 4096, 1 << 20}[r.Choose(5)] // payload size relative to the limit: the envelope adds about 150 bytes
	// instead of an oversized message: a value no codec is registered for (a plain string, a struct by value, nil) - it
	// cannot be encoded at all and must be given up like any unsendable message, without disturbing the others
	unencodable := r.Choose(4) // 0 = oversized message, 1 string, 2 struct value, 3 nil
	r.Sample(map[string]any{"messages": n, "odd_one_at": bigAt, "payload_minus_limit": over, "odd_one": []string{"oversized", "string value", "struct value", "nil"}[unencodable]})
	var ref vivid.ActorRef
	a.Do(func() { ref, _ = a.Sys.CreateRef(c14AddrB, "/sink") })
	for k := 0; k < n; k++ {
		size := 24
		if k == bigAt {
			size = limit + over
			switch unencodable {
			case 1:
				a.Do(func() { a.Sys.Tell(ref, "a plain string") })
				continue
			case 2:
				a.Do(func() { a.Sys.Tell(ref, struct{ N int }{7}) })
				continue
			case 3:
				a.Do(func() { a.Sys.Tell(ref, nil) })
				continue
			}
		}
		a.Do(func() { a.Sys.Tell(ref, newRMsg("m", int64(k), size, 0)) })
	}
	vsimrt.SettleFor(5 * time.Second)
	if r.Failed() {
		return
	}
	b.mu.Lock()
	df := b.decodeFailed
	b.mu.Unlock()
	got, ok := c14CheckFlow(r, a, b, "m", n, "oversized-message")
	if !ok {
		return
	}
	a.mu.Lock()
	dl := 0
	for _, d := range a.deadLetters {
		if d == fmt.Sprintf("m#%d", bigAt) {
			dl++
		}
	}
	a.mu.Unlock()
	for k := 0; k < n; k++ {
		if k != bigAt && !got[int64(k)] {
			r.Fail("C14/oversized-message-stops-later-frames", "a message whose frame exceeds the 4 MiB limit (payload %d bytes) was told as #%d of %d on a healthy connection; ordinary message #%d never arrived (arrived: %v; receiver decode failures: %d; dead letters for the oversized message: %d)", limit+over, bigAt, n, k, keys64(got), df, dl)
			return
		}
	}
	if df > 0 {
		r.Fail("C14/oversized-message-desynchronises-stream", "after the oversized message the receiver reported %d undecodable frame(s): it is parsing the rejected frame's body as frames", df)
		return
	}
	if unencodable != 0 {
		r.Count("unencodable-message-checked")
		_ = a.Stop()
		_ = b.Stop()
		return
	}
	if !got[int64(bigAt)] && dl == 0 {
		r.Fail("C14/oversized-message-silently-dropped", "the oversized message #%d (payload %d bytes) was neither delivered nor reported as a dead letter on the sending side", bigAt, limit+over)
		return
	}
	r.Count("oversized-message-checked")
	_ = a.Stop()
	_ = b.Stop()
}

// c14TwoFaults: two connection faults on one sender->address mailbox. First the peer refuses connections for a while, so
// that a message gets through only on a retry; after some healthy traffic all connections are reset while the peer stays
// reachable. With ReconnectLimit >= 1 the messages sent after the reset have a retry that finds the peer: none of them may
// be given up as a dead letter (retry state must not leak from one message, or one fault, to the next). The usual flow
// rules (subsequence, no duplicate, nothing both delivered and dead-lettered) apply throughout.
func c14TwoFaults(r *R) {
	nw := simnet.New()
	nw.ChunkMode = simnet.ChunkMixed
	limit := []int{1, 2, 3}[r.Choose(3)]
	opt := RNodeOpt{ReconnectLimit: limit, InitialDelay: 50 * time.Millisecond, MaxDelay: 200 * time.Millisecond, Jitter: false}
	a := StartRNode(r, nw, 1, c14AddrA, opt)
	if r.Failed() {
		return
	}
	b := StartRNode(r, nw, 2, c14AddrB, opt)
	if r.Failed() {
		return
	}
	b.Sink("sink")
	vsimrt.Settle()
	var ref vivid.ActorRef
	a.Do(func() { ref, _ = a.Sys.CreateRef(c14AddrB, "/sink") })
	tell := func(k int) { a.Do(func() { a.Sys.Tell(ref, newRMsg("m", int64(k), 32, 0)) }) }
	warm := r.Chance(50)
	k := 0
	if warm {
		tell(k) // the connection exists before the first fault
		k++
		vsimrt.SettleFor(100 * time.Millisecond)
	}
	// fault 1: refused (and, if warm, reset) for a period that ends between two retries: back-off 50, 100, 200, 200 ms
	retries := 1 + r.Choose(limit)
	refuseFor := []time.Duration{25 * time.Millisecond, 100 * time.Millisecond, 250 * time.Millisecond}[retries-1]
	nw.Refuse(c14AddrB, true)
	nw.CutAll(1, 2)
	firstFaulted := k
	tell(k)
	k++
	vsimrt.Sleep(refuseFor)
	nw.Refuse(c14AddrB, false)
	r.Count("fault:refuse-period")
	vsimrt.SettleFor(time.Second)
	healthy := 1 + r.Choose(3)
	for i := 0; i < healthy; i++ {
		tell(k)
		k++
		vsimrt.Sleep(50 * time.Millisecond)
	}
	vsimrt.SettleFor(300 * time.Millisecond)
	// fault 2: reset of the established connection, peer reachable all the time
	nw.CutAll(1, 2)
	r.Count("fault:reset-all")
	afterReset := k
	for i := 0; i < 4; i++ {
		tell(k)
		k++
		vsimrt.Sleep(300 * time.Millisecond)
	}
	vsimrt.SettleFor(2 * time.Second)
	r.Sample(map[string]any{"reconnect_limit": limit, "first_fault_refuses_for": refuseFor.String(), "warm_connection": warm, "healthy_between": healthy})
	what := "two-faults"
	got, ok := c14CheckFlow(r, a, b, "m", k, what)
	if !ok {
		return
	}
	a.mu.Lock()
	dls := append([]string(nil), a.deadLetters...)
	a.mu.Unlock()
	for _, d := range dls {
		for i := afterReset; i < k; i++ {
			if d == fmt.Sprintf("m#%d", i) {
				r.Fail("C14/dead-letter-without-retries after-second-fault", "message #%d was sent after a connection reset with the peer reachable all the time and ReconnectLimit %d, yet it was given up as a dead letter (an earlier message, #%d, had needed retries during a refusal period of %v; %d healthy message(s) in between); delivered: %v; dead letters: %v; connections dialled: %d", i, limit, firstFaulted, refuseFor, healthy, keys64(got), dls, nw.StatsCopy().Dials)
				return
			}
		}
	}
	for i := k - 2; i < k; i++ {
		if !got[int64(i)] {
			r.Fail("C14/no-recovery two-faults", "message #%d, sent well after the connection reset with the peer reachable, never arrived (delivered: %v; dead letters: %v)", i, keys64(got), dls)
			return
		}
	}
	r.Count("two-faults-checked")
	netFaultCounts(r, nw)
	_ = a.Stop()
	_ = b.Stop()
}
