//go:build vsim

package vsimharness

import (
	"errors"
	"fmt"
	"sort"
	"strings"
	"sync"
	"time"

	"github.com/kercylan98/vivid"
	"github.com/kercylan98/vivid/internal/actor"
	vsimrt "vsimrt/simrt"
)

// C08 / C09 - the supervision failure matrix (DESIGN.md 3, C08 and C09): the fault dimension
// (decision x strategy x failure site x panic|Failed x tree) is enumerated from the run index, the schedule
// dimension is sampled.

var c08Decisions = []vivid.SupervisionDecision{vivid.SupervisionDecisionRestart, vivid.SupervisionDecisionGracefulRestart, vivid.SupervisionDecisionStop,
	vivid.SupervisionDecisionGracefulStop, vivid.SupervisionDecisionResume, vivid.SupervisionDecisionEscalate}
var c08DecNames = []string{"Restart", "GracefulRestart", "Stop", "GracefulStop", "Resume", "Escalate"}
var c08Sites = []string{"OnLaunch", "user-message", "child-OnKilled", "scheduled-message"}
var c08Trees = []string{"one-child", "three-siblings", "siblings-with-grandchildren", "escalation-depth-2", "escalation-depth-3", "no-strategy-anywhere"}

const c08Cells = 6 * 2 * 4 * 2 * 6

func init() {
	for _, prop := range []string{"C08", "C09"} {
		prop := prop
		register(&Workload{Prop: prop, Variant: "matrix", Horizon: 20 * time.Minute, MaxSteps: 300000, MaxG: 4096, Spin: 8000, PCTLen: 3000, Weight: 8, Body: func(r *R) { c08Matrix(r, prop) }})
		register(&Workload{Prop: prop, Variant: "failure-while-stopping", Horizon: 20 * time.Minute, MaxSteps: 200000, MaxG: 4096, Spin: 8000, PCTLen: 2000, Weight: 1, Body: func(r *R) { c08WhileStopping(r, prop) }})
	}
	register(&Workload{Prop: "C09", Variant: "zombie", Horizon: 20 * time.Minute, MaxSteps: 200000, MaxG: 4096, Spin: 8000, PCTLen: 2000, Weight: 2, Body: c09Zombie})
	register(&Workload{Prop: "C09", Variant: "failure-during-stop", Horizon: 20 * time.Minute, MaxSteps: 200000, MaxG: 4096, Spin: 8000, PCTLen: 2000, Weight: 2, Body: c09FailureDuringStop})
	register(&Workload{Prop: "C09", Variant: "double-failure", Horizon: 20 * time.Minute, MaxSteps: 200000, MaxG: 4096, Spin: 8000, PCTLen: 1500, Weight: 2, Body: c09DoubleFailure})
	register(&Workload{Prop: "C09", Variant: "concurrent-failures", Horizon: 20 * time.Minute, MaxSteps: 300000, MaxG: 4096, Spin: 8000, PCTLen: 3000, Weight: 2, Body: c09Concurrent})
}

type c08Cell struct {
	dec, strat, site, how, tree int
}

func c08CellOf(idx int) c08Cell {
	c := idx % c08Cells
	var x c08Cell
	x.dec = c % 6
	c /= 6
	x.strat = c % 2
	c /= 2
	x.site = c % 4
	c /= 4
	x.how = c % 2
	c /= 2
	x.tree = c % 6
	return x
}

func (c c08Cell) String() string {
	return fmt.Sprintf("decision=%s strategy=%s site=%s how=%s tree=%s", c08DecNames[c.dec], []string{"one-for-one", "one-for-all"}[c.strat], c08Sites[c.site], []string{"panic", "Failed"}[c.how], c08Trees[c.tree])
}

func c08Matrix(r *R, prop string) {
	cell := c08CellOf(r.Index) // r.Index = ordinal of this run among the matrix runs: consecutive runs visit consecutive cells
	r.Count("dim decision=" + c08DecNames[cell.dec])
	r.Count("dim site=" + c08Sites[cell.site])
	r.Count("dim tree=" + c08Trees[cell.tree])
	r.Count("dim strategy=" + []string{"one-for-one", "one-for-all"}[cell.strat])
	D := c08Decisions[cell.dec]
	wopt := WorldOpt{}
	sysEscalates := false
	if cell.dec == 5 && r.Chance(20) {
		sysEscalates = true
		// the system-level strategy escalates as well: at the top there is nobody left to escalate to, the chain ends there
		// with the default, Stop
		wopt.MakeStrategy = func(w *World) vivid.SupervisionStrategy {
			return vivid.OneForOneStrategy(w.NewMaker("system", func(n int, ctx vivid.SupervisionContext) vivid.SupervisionDecision {
				return vivid.SupervisionDecisionEscalate
			}))
		}
		r.Count("system-strategy-escalates-too")
	}
	w := newWorld(r, wopt)
	if r.Failed() {
		return
	}
	if cell.dec == 5 && r.Chance(25) {
		// "unexpected decision values are treated as escalate" (doc of vivid.SupervisionDecision): the zero value a decision
		// maker returns by accident, or a value past the last constant, must behave exactly like Escalate
		D = []vivid.SupervisionDecision{0, 7, -1}[r.Choose(3)]
		r.Count("out-of-range-decision-value")
		r.Note("the deciding supervisor answers with the out-of-range decision value %d (documented: treated as escalate)", D)
	}
	sysI := actor.VsimSystem(w.Sys)
	mkStrategy := func(m *Maker) vivid.SupervisionStrategy {
		if cell.strat == 1 {
			return vivid.OneForAllStrategy(m)
		}
		return vivid.OneForOneStrategy(m)
	}
	// ---- tree ----
	// /sup is the deciding supervisor. Its children c0..; the failing actor F is c0 (flat trees) or a descendant of c0
	// (escalation chains: every level between F and /sup escalates).
	var mu sync.Mutex
	failLaunchDone := false
	var F string // path of the failing actor
	fail := func(ctx vivid.ActorContext, what string) {
		r.Count("failure-injected")
		if cell.how == 0 {
			panic(what)
		}
		ctx.Failed(errors.New(what))
	}
	launchHook := func(ctx vivid.ActorContext, p *Probe) {
		if cell.site == 0 && p.Path == F {
			mu.Lock()
			first := !failLaunchDone
			failLaunchDone = true
			mu.Unlock()
			if first {
				fail(ctx, "failure in OnLaunch")
			}
		}
	}
	childKilledArmed := false
	killedHook := func(ctx vivid.ActorContext, p *Probe, ref vivid.ActorRef) {
		if cell.site == 2 && p.Path == F && !ref.Equals(ctx.Ref()) && strings.HasSuffix(ref.GetPath(), "/x") {
			mu.Lock()
			armed := childKilledArmed
			childKilledArmed = false
			mu.Unlock()
			if armed {
				fail(ctx, "failure while handling a child's OnKilled")
			}
		}
	}
	mk := func(name string) *Spec {
		return &Spec{Name: name, OnLaunch: launchHook, OnKilled: killedHook, Provider: r.Chance(50)}
	}
	supM := w.NewMaker("sup", func(n int, ctx vivid.SupervisionContext) vivid.SupervisionDecision { return D })
	sup := mk("sup")
	nSiblings := 1
	switch cell.tree {
	case 1, 2:
		nSiblings = 3
	case 3, 4:
		nSiblings = 2
	case 5:
		nSiblings = 3
	}
	if cell.tree != 5 {
		sup.Strategy = mkStrategy(supM)
	}
	escalators := map[string]*Maker{}
	var all []string // every probe path below /sup, plus /sup
	all = append(all, "/sup")
	for i := 0; i < nSiblings; i++ {
		c := mk(fmt.Sprintf("c%d", i))
		cp := "/sup/" + c.Name
		all = append(all, cp)
		if cell.tree == 2 {
			c.Children = append(c.Children, mk("g"))
			all = append(all, cp+"/g")
		}
		if i == 0 && (cell.tree == 3 || cell.tree == 4) {
			m1 := w.NewMaker("c0", func(n int, ctx vivid.SupervisionContext) vivid.SupervisionDecision {
				return vivid.SupervisionDecisionEscalate
			})
			escalators["/sup/c0"] = m1
			// the escalating supervisor uses the cell's strategy too and has a healthy second child: under one-for-all
			// it suspends that sibling before escalating, and whoever decides above must resume it
			c.Strategy = mkStrategy(m1)
			c.Children = append(c.Children, mk("s"))
			all = append(all, cp+"/s")
			d1 := mk("d")
			all = append(all, cp+"/d")
			if cell.tree == 4 {
				m2 := w.NewMaker("d", func(n int, ctx vivid.SupervisionContext) vivid.SupervisionDecision {
					return vivid.SupervisionDecisionEscalate
				})
				escalators["/sup/c0/d"] = m2
				d1.Strategy = mkStrategy(m2)
				e1 := mk("e")
				d1.Children = append(d1.Children, e1, mk("s"))
				all = append(all, cp+"/d/e", cp+"/d/s")
			}
			c.Children = append(c.Children, d1)
		}
		sup.Children = append(sup.Children, c)
	}
	switch cell.tree {
	case 3:
		F = "/sup/c0/d"
	case 4:
		F = "/sup/c0/d/e"
	default:
		F = "/sup/c0"
	}
	// the failing actor gets a child "x" for the child-OnKilled site
	if cell.site == 2 {
		var add func(s *Spec, path string)
		add = func(s *Spec, path string) {
			if path == F {
				s.Children = append(s.Children, &Spec{Name: "x"})
				return
			}
			for _, c := range s.Children {
				add(c, path+"/"+c.Name)
			}
		}
		add(sup, "/sup")
	}
	// a bystander outside the supervised subtree
	if _, err := w.Spawn(&Spec{Name: "bystander"}); err != nil {
		r.Fail(prop+"/harness", "spawn: %v", err)
		return
	}
	r.Sample(map[string]any{"cell": cell.String(), "failing_actor": F})
	if _, err := w.Spawn(sup); err != nil {
		r.Fail(prop+"/harness", "spawn: %v", err)
		return
	}
	refOf := func(p string) vivid.ActorRef { return w.RefBy("create", nil, p) }
	// numbered background stream to every actor (uninterrupted-stream oracle) - phase 1 before the failure
	seqOf := map[string]int{}
	stream := func(n int) {
		for k := 0; k < n; k++ {
			for _, p := range append([]string{"/bystander"}, all...) {
				seqOf[p]++
				w.Tell(refOf(p), &Cmd{ID: w.NewID(), Sender: "stream", Seq: seqOf[p]})
			}
		}
	}
	if cell.site != 0 {
		vsimrt.Settle()
		stream(2)
		vsimrt.Settle()
	}
	// ---- inject the failure ----
	held := false
	var burst []int // ids of the burst u1..un (position k fails)
	failPos := -1
	failID := 0
	switch cell.site {
	case 0:
		// already armed: the first OnLaunch of F fails
	case 1:
		n := 2 + r.Choose(5)
		failPos = r.Choose(n)
		gate := NewGate()
		held = r.Chance(70)
		if held {
			w.Tell(refOf(F), w.NewCmd("gate", 0, func(ctx vivid.ActorContext, p *Probe) { gate.Wait() }))
			vsimrt.Settle()
		}
		for k := 0; k < n; k++ {
			var do func(ctx vivid.ActorContext, p *Probe)
			if k == failPos {
				do = func(ctx vivid.ActorContext, p *Probe) { fail(ctx, "failure in a user message") }
			}
			c := w.NewCmd("burst", k, do)
			burst = append(burst, c.ID)
			if k == failPos {
				failID = c.ID
			}
			w.Tell(refOf(F), c)
		}
		if held {
			gate.Open()
		}
	case 2:
		mu.Lock()
		childKilledArmed = true
		mu.Unlock()
		w.Tell(refOf(F), w.NewCmd("killchild", 0, func(ctx vivid.ActorContext, p *Probe) {
			for _, k := range ctx.Children() {
				if strings.HasSuffix(k.GetPath(), "/x") {
					ctx.Kill(k, false, "scripted")
				}
			}
		}))
	case 3:
		w.Tell(refOf(F), w.NewCmd("sched", 0, func(ctx vivid.ActorContext, p *Probe) {
			_ = ctx.Scheduler().Once(ctx.Ref(), 50*time.Millisecond, w.NewCmd("scheduled", 0, func(ctx vivid.ActorContext, p *Probe) { fail(ctx, "failure in a scheduled message") }))
		}))
	}
	vsimrt.SettleFor(300 * time.Millisecond)
	if r.Failed() {
		return
	}
	evsMid := w.Events()
	// phase 2 stream + probes after the dust settled
	stream(2)
	vsimrt.SettleFor(200 * time.Millisecond)
	if r.Failed() {
		return
	}
	evs := w.Events()
	_ = evsMid

	// ---- expectations ----
	effective := D
	if !D.IsValid() {
		effective = vivid.SupervisionDecisionEscalate
	}
	decider := "/sup" // the supervisor whose children are the targets
	childOfDecider := F
	if cell.tree == 3 || cell.tree == 4 {
		childOfDecider = "/sup/c0"
	}
	stopsSup := false
	if cell.tree == 5 && sysEscalates {
		effective = vivid.SupervisionDecisionEscalate // /sup answers with the system-level strategy, which escalates in this run
	} else if cell.tree == 5 {
		effective = vivid.SupervisionDecisionStop // system default
		// /sup has no strategy: the system default (one-for-one Stop) is applied by /sup itself to the failing child
	}
	if effective == vivid.SupervisionDecisionEscalate {
		// escalated past /sup: the system default at the top stops /sup (and with it the whole subtree)
		stopsSup = true
	}
	under := func(p, root string) bool { return p == root || strings.HasPrefix(p, root+"/") }
	var targets []string
	if stopsSup {
		targets = []string{"/sup"}
	} else if cell.strat == 1 && cell.tree != 5 {
		for _, p := range all {
			if strings.Count(p, "/") == 2 && under(p, decider) && p != decider {
				targets = append(targets, p)
			}
		}
	} else {
		targets = []string{childOfDecider}
	}
	sort.Strings(targets)
	isTargetTree := func(p string) bool {
		for _, t := range targets {
			if under(p, t) {
				return true
			}
		}
		return false
	}
	lives := Lives(evs)
	terminated := func(p string) bool {
		ls := lives[p]
		if len(ls) == 0 {
			return false
		}
		for _, e := range ls[len(ls)-1].Events {
			if e.Kind == "OnKilled" && e.Ref == p {
				return true
			}
		}
		return false
	}
	restarts := func(p string) int {
		n := 0
		for _, l := range lives[p] {
			if l.ByRestart {
				n++
			}
		}
		return n
	}

	if prop == "C08" {
		// (a) every maker on the path was consulted exactly once
		if cell.tree != 5 {
			if n := len(supM.CallList()); n != 1 {
				r.Fail(fmt.Sprintf("C08/maker-calls=%d site=%s", n, c08Sites[cell.site]), "cell [%s]: the deciding supervisor's strategy was consulted %d times for one failure; calls: %+v", cell, n, supM.CallList())
				w.DumpNotes(400)
				return
			}
			if c := supM.CallList()[0]; c.Child != childOfDecider {
				r.Fail("C08/maker-saw-wrong-child", "cell [%s]: the maker was told the failing child is %s, expected %s", cell, c.Child, childOfDecider)
				return
			}
		}
		for p, m := range escalators {
			if n := len(m.CallList()); n != 1 {
				r.Fail(fmt.Sprintf("C08/escalation-maker-calls=%d", n), "cell [%s]: the escalating supervisor %s was consulted %d times", cell, p, n)
				w.DumpNotes(400)
				return
			}
		}
		// (b) the directive was applied to exactly its targets
		for _, t := range targets {
			switch {
			case effective == vivid.SupervisionDecisionRestart || effective == vivid.SupervisionDecisionGracefulRestart:
				if restarts(t) != 1 || terminated(t) {
					r.Fail(fmt.Sprintf("C08/target-not-restarted decision=%s", c08DecNames[cell.dec]), "cell [%s]: target %s was restarted %d times (terminated: %v); its lives: %s", cell, t, restarts(t), terminated(t), c08LivesDesc(lives[t]))
					w.DumpNotes(400)
					return
				}
				// the new incarnation starts with its own OnLaunch
				ls := lives[t]
				last := ls[len(ls)-1]
				if !last.ByRestart || len(last.Events) == 0 || last.Events[0].Kind != "OnLaunch" {
					r.Fail(fmt.Sprintf("C08/restarted-target-without-onlaunch decision=%s", c08DecNames[cell.dec]), "cell [%s]: restarted target %s: the new incarnation does not start with OnLaunch; lives: %s", cell, t, c08LivesDesc(ls))
					w.DumpNotes(400)
					return
				}
			case effective == vivid.SupervisionDecisionStop || effective == vivid.SupervisionDecisionGracefulStop || stopsSup:
				if !terminated(t) {
					r.Fail(fmt.Sprintf("C08/target-not-stopped decision=%s", c08DecNames[cell.dec]), "cell [%s]: target %s was not terminated; its lives: %s", cell, t, c08LivesDesc(lives[t]))
					w.DumpNotes(400)
					return
				}
				// the parent was notified
				par := t[:strings.LastIndex(t, "/")]
				if par != "" {
					n := 0
					for _, e := range evs {
						if e.Path == par && e.Kind == "OnKilled" && e.Ref == t {
							n++
						}
					}
					if n != 1 {
						r.Fail(fmt.Sprintf("C08/stop-parent-notified=%d", n), "cell [%s]: parent %s received %d OnKilled for the stopped target %s", cell, par, n, t)
						return
					}
				}
			case effective == vivid.SupervisionDecisionResume:
				if restarts(t) != 0 || terminated(t) {
					r.Fail("C08/resume-changed-incarnation", "cell [%s]: target %s was restarted %d times / terminated %v under Resume", cell, t, restarts(t), terminated(t))
					w.DumpNotes(400)
					return
				}
			}
		}
		// the failing message is never redelivered
		if failID != 0 {
			n := 0
			for _, e := range evs {
				if e.Kind == "Cmd" && e.ID == failID {
					n++
				}
			}
			if n != 1 {
				r.Fail(fmt.Sprintf("C08/failing-message-delivered=%d decision=%s", n, c08DecNames[cell.dec]), "cell [%s]: the failing message was handed to the behaviour %d times", cell, n)
				w.DumpNotes(400)
				return
			}
		}
		// (c) everybody else: no lifecycle message beyond the first OnLaunch, uninterrupted numbered stream
		for _, p := range append([]string{"/bystander"}, all...) {
			// under Resume nobody changes incarnation and every numbered stream continues, targets included
			if effective != vivid.SupervisionDecisionResume && (isTargetTree(p) || (stopsSup && under(p, "/sup"))) {
				continue
			}
			if under(F, p) && p != F {
				// ancestors of the failing actor (escalators, /sup itself) legitimately see supervision traffic but must not change incarnation
			}
			if restarts(p) != 0 || terminated(p) {
				r.Fail(fmt.Sprintf("C08/untargeted-actor-affected decision=%s strategy=%s", c08DecNames[cell.dec], []string{"one-for-one", "one-for-all"}[cell.strat]), "cell [%s]: %s is not a target of the directive (targets %v) but was restarted %d times / terminated %v; lives: %s", cell, p, targets, restarts(p), terminated(p), c08LivesDesc(lives[p]))
				w.DumpNotes(400)
				return
			}
			var seqs []int
			launches := 0
			for _, e := range evs {
				if e.Path == p && e.Kind == "Cmd" && strings.Contains(e.Info, "from=stream") {
					var s int
					fmt.Sscanf(e.Info[strings.Index(e.Info, "seq=")+4:], "%d", &s)
					seqs = append(seqs, s)
				}
				if e.Path == p && (e.Kind == "OnKill" || (e.Kind == "OnKilled" && e.Ref == p)) {
					r.Fail("C08/untargeted-actor-affected lifecycle-message", "cell [%s]: %s is not a target but its behaviour saw %s", cell, p, e.String())
					return
				}
				if e.Path == p && e.Kind == "OnLaunch" {
					launches++
					if launches > 1 {
						r.Fail("C08/untargeted-actor-affected lifecycle-message", "cell [%s]: %s is not a target but its behaviour saw a second %s", cell, p, e.String())
						w.DumpNotes(400)
						return
					}
				}
			}
			want := seqOf[p]
			if cell.site == 0 {
				want = 2
			}
			okSeq := len(seqs) == want
			for i, s := range seqs {
				if s != i+1+(seqOf[p]-want) {
					okSeq = false
				}
			}
			if !okSeq {
				r.Fail("C08/untargeted-actor-stream-interrupted", "cell [%s]: %s is not a target but its numbered stream is %v (expected %d messages in order)", cell, p, seqs, want)
				w.DumpNotes(400)
				return
			}
		}
		r.Count("cells-checked")
		return
	}

	// ---- C09 ----
	// (e)+(f) nobody alive is paused or half-stopped; probes are processed by the living and dead-lettered for the dead
	vsimrt.Fence()
	for _, ci := range actor.VsimContexts(sysI) {
		if ci.Path == "/" || ci.Path == "/obs" {
			continue
		}
		if ci.Zombie {
			continue
		}
		if ci.State == 1 {
			r.Fail(fmt.Sprintf("C09/half-stopped decision=%s site=%s", c08DecNames[cell.dec], c08Sites[cell.site]), "cell [%s]: %s is still in the killing state at quiescence (children it waits for: %v)", cell, ci.Path, ci.Children)
			w.DumpNotes(400)
			return
		}
		if ci.State == 0 && ci.Paused {
			r.Fail(fmt.Sprintf("C09/left-paused decision=%s site=%s", c08DecNames[cell.dec], c08Sites[cell.site]), "cell [%s]: %s is alive but its mailbox is still paused at quiescence", cell, ci.Path)
			w.DumpNotes(400)
			return
		}
	}
	probeIDs := map[string]int{}
	for _, p := range append([]string{"/bystander"}, all...) {
		c := w.NewCmd("probe", 0, nil)
		probeIDs[p] = c.ID
		w.Tell(refOf(p), c)
	}
	vsimrt.SettleFor(200 * time.Millisecond)
	evs = w.Events()
	lives = Lives(evs)
	for _, p := range append([]string{"/bystander"}, all...) {
		proc, dl := 0, 0
		for _, e := range evs {
			if e.ID == probeIDs[p] {
				if e.Kind == "Cmd" {
					proc++
				}
				if e.Kind == "Evt:DeathLetter" {
					dl++
				}
			}
		}
		dead := terminated(p)
		switch {
		case !dead && proc != 1:
			r.Fail(fmt.Sprintf("C09/probe-not-processed decision=%s site=%s", c08DecNames[cell.dec], c08Sites[cell.site]), "cell [%s]: %s should be alive but the probe sent after quiescence was processed %d times (dead letters %d); lives: %s", cell, p, proc, dl, c08LivesDesc(lives[p]))
			w.DumpNotes(400)
			return
		case dead && (proc != 0 || dl != 1):
			r.Fail("C09/probe-to-stopped-actor", "cell [%s]: %s was stopped but the probe was processed %d times and dead-lettered %d times", cell, p, proc, dl)
			w.DumpNotes(400)
			return
		}
	}
	// (g) the burst queued behind the failing message
	if cell.site == 1 && len(burst) > 0 {
		type where struct {
			life int
			pos  int
		}
		got := map[int]where{}
		for li, l := range lives[F] {
			for pi, e := range l.Events {
				if e.Kind == "Cmd" {
					for _, id := range burst {
						if e.ID == id {
							got[id] = where{li, pi}
						}
					}
				}
			}
		}
		dls := map[int]int{}
		for _, e := range evs {
			if e.Kind == "Evt:DeathLetter" {
				dls[e.ID]++
			}
		}
		fTargeted := isTargetTree(F)
		var order []int
		for k, id := range burst {
			if k == failPos {
				continue
			}
			wh, ok := got[id]
			switch {
			case ok && dls[id] > 0:
				r.Fail("C09/burst-message-processed-and-dead-lettered", "cell [%s]: burst message #%d was processed and dead-lettered", cell, k)
				return
			case !ok && dls[id] == 0:
				r.Fail(fmt.Sprintf("C09/burst-message-lost decision=%s", c08DecNames[cell.dec]), "cell [%s]: message #%d of the burst (failing position %d) was neither processed nor dead-lettered; lives of %s: %s", cell, k, failPos, F, c08LivesDesc(lives[F]))
				w.DumpNotes(400)
				return
			case !ok:
				// dead-lettered: legitimate when the incarnation of F that failed was terminated (stopped by the
				// directive, or killed as a descendant of a restarted/stopped target), or when the message was not
				// provably queued before the failure (handler not held) and a graceful directive re-opened the mailbox
				fTerminated := false
				if ls := lives[F]; len(ls) > 0 {
					for li, l := range ls {
						hasFail := false
						for _, e := range l.Events {
							if e.Kind == "Cmd" && e.ID == failID {
								hasFail = true
							}
						}
						if hasFail {
							next := li + 1
							if next >= len(ls) {
								fTerminated = terminated(F)
							} else if !ls[next].ByRestart {
								fTerminated = true
							}
						}
					}
				}
				lateOK := !held && (effective == vivid.SupervisionDecisionGracefulRestart || effective == vivid.SupervisionDecisionGracefulStop)
				if !fTerminated && !lateOK {
					r.Fail(fmt.Sprintf("C09/burst-message-dead-lettered decision=%s", c08DecNames[cell.dec]), "cell [%s]: message #%d of the burst (queued before the failure: %v) became a dead letter although %s was not terminated", cell, k, held, F)
					w.DumpNotes(400)
					return
				}
			default:
				order = append(order, wh.life*100000+wh.pos)
				if k > failPos && fTargeted && effective == vivid.SupervisionDecisionGracefulStop {
					// processed before the stop: fine
				}
			}
		}
		for i := 1; i < len(order); i++ {
			if order[i] < order[i-1] {
				r.Fail(fmt.Sprintf("C09/burst-order decision=%s", c08DecNames[cell.dec]), "cell [%s]: the messages queued around the failing one were processed out of order by %s", cell, F)
				w.DumpNotes(400)
				return
			}
		}
		r.Count("burst-checked")
	}
	r.Count("cells-checked")
}

func c08LivesDesc(ls []*Life) string {
	var sb strings.Builder
	for i, l := range ls {
		fmt.Fprintf(&sb, "{life %d byRestart=%v: %s} ", i, l.ByRestart, fmtEvents(l.Events, 14))
	}
	return sb.String()
}

// a failure raised while an actor is already stopping does not trigger supervision
func c08WhileStopping(r *R, prop string) {
	w := newWorld(r, WorldOpt{})
	if r.Failed() {
		return
	}
	m := w.NewMaker("sup", func(n int, ctx vivid.SupervisionContext) vivid.SupervisionDecision {
		return vivid.SupervisionDecisionRestart
	})
	site := r.Choose(3) // 0 OnKill, 1 own OnKilled, 2 child's OnKilled while stopping
	poison := r.Chance(50)
	victim := &Spec{Name: "v", Children: []*Spec{{Name: "k"}}}
	victim.OnKill = func(ctx vivid.ActorContext, p *Probe) {
		if site == 0 {
			panic("failure in OnKill")
		}
	}
	victim.OnKilled = func(ctx vivid.ActorContext, p *Probe, ref vivid.ActorRef) {
		if site == 1 && ref.Equals(ctx.Ref()) {
			panic("failure in own OnKilled")
		}
		if site == 2 && !ref.Equals(ctx.Ref()) {
			panic("failure in a child's OnKilled while stopping")
		}
	}
	sup := &Spec{Name: "sup", Strategy: vivid.OneForOneStrategy(m), Children: []*Spec{victim, {Name: "sibling"}}}
	if _, err := w.Spawn(sup); err != nil {
		r.Fail(prop+"/harness", "spawn: %v", err)
		return
	}
	r.Sample(map[string]any{"site": []string{"OnKill", "own OnKilled", "child OnKilled while stopping"}[site], "poison": poison})
	vsimrt.Settle()
	w.Sys.Kill(w.RefBy("create", nil, "/sup/v"), poison, "scripted")
	vsimrt.SettleFor(200 * time.Millisecond)
	evs := w.Events()
	if prop == "C08" {
		if n := len(m.CallList()); n != 0 {
			r.Fail("C08/supervision-while-stopping", "a failure in %s of an actor that is already stopping consulted the supervisor %d times", []string{"OnKill", "its own OnKilled", "a child's OnKilled"}[site], n)
			return
		}
	}
	killed := false
	for _, e := range evs {
		if e.Path == "@obs" && e.Kind == "Evt:ActorKilled" && e.Ref == "/sup/v" {
			killed = true
		}
	}
	if !killed {
		r.Fail(prop+"/stop-not-completed-after-failure-while-stopping", "the victim never terminated after failing in %s while stopping", []string{"OnKill", "its own OnKilled", "a child's OnKilled"}[site])
		w.DumpNotes(300)
		return
	}
	if prop == "C09" {
		vsimrt.Fence()
		for _, ci := range actor.VsimContexts(actor.VsimSystem(w.Sys)) {
			if ci.Path != "/" && (ci.State == 1 || (ci.State == 0 && ci.Paused)) {
				r.Fail("C09/left-paused-or-half-stopped after-failure-while-stopping", "%s: state=%d paused=%v", ci.Path, ci.State, ci.Paused)
				return
			}
		}
	}
}

// a restart hook fails: the actor becomes a zombie
func c09Zombie(r *R) {
	w := newWorld(r, WorldOpt{})
	if r.Failed() {
		return
	}
	hook := r.Choose(3) // 0 PreRestart (must NOT make a zombie: "exceptions there are logged and the restart continues"), 1 Restarted, 2 Prelaunch
	graceful := r.Chance(40)
	release := r.Choose(2) // 0 explicit Kill, 1 parent's termination
	dec := vivid.SupervisionDecisionRestart
	if graceful {
		dec = vivid.SupervisionDecisionGracefulRestart
	}
	// a later failure of the zombie's sibling: under one-for-all the supervisor's answer (pause, then the decision) goes to
	// the zombie as well, which must go on consuming its mail whatever that answer is
	second := r.Chance(50)
	oneForAll := r.Chance(50)
	dec2 := []vivid.SupervisionDecision{vivid.SupervisionDecisionRestart, vivid.SupervisionDecisionResume, vivid.SupervisionDecisionGracefulRestart}[r.Choose(3)]
	m := w.NewMaker("sup", func(n int, ctx vivid.SupervisionContext) vivid.SupervisionDecision {
		if n > 0 {
			return dec2
		}
		return dec
	})
	userCode := 0
	var mu sync.Mutex
	restarted := false
	z := &Spec{Name: "z"}
	z.OnOther = func(ctx vivid.ActorContext, p *Probe, m any) {}
	failHook := func(which int) func(p *Probe) error {
		return func(p *Probe) error {
			if hook == which {
				if which == 0 {
					return errors.New("pre-restart hook fails")
				}
				mu.Lock()
				restarted = true
				mu.Unlock()
				if r.Chance(50) {
					panic("restart hook panics")
				}
				return errors.New("restart hook fails")
			}
			return nil
		}
	}
	z.PreRestart, z.Restarted = failHook(0), failHook(1)
	firstPrelaunch := true
	z.Prelaunch = func(p *Probe) error {
		mu.Lock()
		first := firstPrelaunch
		firstPrelaunch = false
		mu.Unlock()
		if first {
			return nil
		}
		return failHook(2)(p)
	}
	// scheduled messages keep arriving at the zombie: from a timer owned by its sibling (a restart does not clear it) and,
	// in some runs, from its own Loop (ticks already queued when the restart begins are drained by the zombie)
	foreignTimer := r.Chance(60)
	ownTimer := r.Chance(40)
	sibling := &Spec{Name: "sibling"}
	if foreignTimer {
		sibling.OnLaunch = func(ctx vivid.ActorContext, p *Probe) {
			zr, _ := ctx.System().CreateRef(ctx.Ref().GetAddress(), "/sup/z")
			_ = ctx.Scheduler().Loop(zr, 50*time.Millisecond, w.NewCmd("foreign-tick", 0, nil))
		}
	}
	if ownTimer {
		z.OnLaunch = func(ctx vivid.ActorContext, p *Probe) {
			_ = ctx.Scheduler().Loop(ctx.Ref(), 10*time.Millisecond, w.NewCmd("own-tick", 0, nil))
		}
	}
	sup := &Spec{Name: "sup", Strategy: vivid.OneForOneStrategy(m), Children: []*Spec{z, sibling}}
	if oneForAll {
		sup.Strategy = vivid.OneForAllStrategy(m)
	}
	if _, err := w.Spawn(sup); err != nil {
		r.Fail("C09/harness", "spawn: %v", err)
		return
	}
	r.Sample(map[string]any{"failing_hook": []string{"PreRestart", "Restarted", "Prelaunch"}[hook], "graceful": graceful, "release": []string{"explicit kill", "parent termination"}[release], "foreign_timer": foreignTimer, "own_timer": ownTimer,
		"one_for_all": oneForAll, "sibling_fails_later": second, "second_decision": fmt.Sprint(dec2)})
	vsimrt.Settle()
	zref := w.RefBy("create", nil, "/sup/z")
	n := 1 + r.Choose(5)
	k := r.Choose(n)
	for i := 0; i < n; i++ {
		var do func(ctx vivid.ActorContext, p *Probe)
		if i == k {
			do = func(ctx vivid.ActorContext, p *Probe) { panic("failure that leads to the restart") }
		}
		w.Tell(zref, w.NewCmd("burst", i, do))
	}
	vsimrt.SettleFor(200 * time.Millisecond)
	if r.Failed() {
		return
	}
	mark := len(w.Events())
	_ = userCode
	if hook == 0 {
		// PreRestart failures are tolerated: the actor must be alive and running again
		c := w.NewCmd("probe", 0, nil)
		w.Tell(zref, c)
		vsimrt.SettleFor(100 * time.Millisecond)
		for _, e := range w.Events() {
			if e.Kind == "Cmd" && e.ID == c.ID {
				r.Count("prerestart-failure-tolerated")
				return
			}
		}
		r.Fail("C09/prerestart-failure-not-tolerated", "a failing OnPreRestart hook must not prevent the restart, but the actor does not process messages afterwards")
		w.DumpNotes(300)
		return
	}
	// zombie: runs no user code, consumes its mail, sends no termination notice
	var ids []int
	for i := 0; i < 3; i++ {
		c := w.NewCmd("to-zombie", i, nil)
		ids = append(ids, c.ID)
		w.Tell(zref, c)
	}
	vsimrt.SettleFor(200 * time.Millisecond)
	evs := w.Events()
	for _, e := range evs[mark:] {
		if e.Path == "/sup/z" && e.Kind != "Hook" {
			r.Fail("C09/zombie-ran-user-code", "the zombie's behaviour saw %s", e.String())
			return
		}
		if (e.Path == "@obs" && e.Kind == "Evt:ActorKilled" && e.Ref == "/sup/z") || (e.Path == "/sup" && e.Kind == "OnKilled" && e.Ref == "/sup/z") {
			r.Fail("C09/zombie-sent-termination-notice", "a termination notice was emitted for the zombie before it was released: %s", e.String())
			return
		}
	}
	vsimrt.Fence()
	for _, ci := range actor.VsimContexts(actor.VsimSystem(w.Sys)) {
		if ci.Path == "/sup/z" {
			if !ci.Zombie {
				r.Fail("C09/not-a-zombie", "the restart hook failed but the actor is not a zombie (state=%d paused=%v)", ci.State, ci.Paused)
				return
			}
			if ci.Paused {
				r.Fail("C09/zombie-paused", "the zombie's mailbox is paused: it does not consume its mail")
				return
			}
		}
		if ci.Path == "/sup/sibling" && (ci.Paused || ci.State != 0) {
			r.Fail("C09/zombie-affected-sibling", "sibling state=%d paused=%v", ci.State, ci.Paused)
			return
		}
	}
	// the sibling and the parent still work
	pc := w.NewCmd("probe", 0, nil)
	w.Tell(w.RefBy("create", nil, "/sup/sibling"), pc)
	vsimrt.SettleFor(100 * time.Millisecond)
	ok := false
	for _, e := range w.Events() {
		if e.Kind == "Cmd" && e.ID == pc.ID {
			ok = true
		}
	}
	if !ok {
		r.Fail("C09/zombie-blocked-sibling", "the zombie's sibling no longer processes messages")
		return
	}
	if second {
		w.Tell(w.RefBy("create", nil, "/sup/sibling"), w.NewCmd("sibling-fails", 0, func(ctx vivid.ActorContext, p *Probe) { panic("the zombie's sibling fails") }))
		vsimrt.SettleFor(300 * time.Millisecond)
		for i := 0; i < 2; i++ {
			w.Tell(zref, w.NewCmd("to-zombie-later", i, nil))
		}
		vsimrt.SettleFor(100 * time.Millisecond)
		if r.Failed() {
			return
		}
		vsimrt.Fence()
		for _, ci := range actor.VsimContexts(actor.VsimSystem(w.Sys)) {
			if ci.Path == "/sup/z" && ci.Paused {
				r.Fail(fmt.Sprintf("C09/zombie-paused after-sibling-failure one-for-all=%v decision=%v", oneForAll, dec2), "after a later failure of its sibling (one-for-all: %v, decision %v) the zombie's mailbox is paused: it no longer consumes its mail and a graceful Kill never reaches it", oneForAll, dec2)
				w.DumpNotes(300)
				return
			}
			if ci.Path == "/sup/sibling" && (ci.Paused || ci.State != 0) {
				r.Fail("C09/left-paused sibling-of-zombie", "the zombie's sibling failed and the supervisor decided %v, but it is left with state=%d paused=%v", dec2, ci.State, ci.Paused)
				w.DumpNotes(300)
				return
			}
		}
		r.Count("zombie-then-sibling-failure")
	}
	// release
	twice := false
	if release == 0 {
		w.Sys.Kill(zref, r.Chance(50), "release the zombie")
		if r.Chance(50) {
			// a repeated kill must not release (and report) the zombie a second time
			twice = true
			w.Sys.Kill(zref, r.Chance(50), "release the zombie again")
		}
	} else {
		w.Sys.Kill(w.RefBy("create", nil, "/sup"), r.Chance(50), "terminate the parent")
	}
	vsimrt.SettleFor(300 * time.Millisecond)
	if _, err := w.Sys.FindActor(zref.String()); err == nil {
		r.Fail(fmt.Sprintf("C09/zombie-not-released by=%s", []string{"explicit-kill", "parent-termination"}[release]), "the zombie's path is still registered after %s", []string{"an explicit Kill", "its parent's termination"}[release])
		w.DumpNotes(300)
		return
	}
	if release == 1 {
		dead := false
		for _, e := range w.Events() {
			if e.Path == "@obs" && e.Kind == "Evt:ActorKilled" && e.Ref == "/sup" {
				dead = true
			}
		}
		if !dead {
			r.Fail("C09/parent-of-zombie-cannot-terminate", "the parent of a zombie never finished terminating")
			w.DumpNotes(300)
			return
		}
	}
	_ = restarted
	// exactly one termination notice for the released zombie
	nEvt, nParent := 0, 0
	for _, e := range w.Events() {
		if e.Path == "@obs" && e.Kind == "Evt:ActorKilled" && e.Ref == "/sup/z" {
			nEvt++
		}
		if e.Path == "/sup" && e.Kind == "OnKilled" && e.Ref == "/sup/z" {
			nParent++
		}
	}
	if nEvt != 1 || (release == 0 && nParent != 1) || nParent > 1 {
		r.Fail(fmt.Sprintf("C09/zombie-release-notices events=%d parent=%d killed-twice=%v", nEvt, nParent, twice), "the released zombie produced %d ActorKilledEvent(s) and %d OnKilled at its parent (released by %s, killed twice: %v)", nEvt, nParent, []string{"explicit kill", "parent termination"}[release], twice)
		w.DumpNotes(300)
		return
	}
	// the timers kept firing all the time: the zombie (and the released actor) never ran user code
	for _, e := range w.Events()[mark:] {
		if e.Path == "/sup/z" && e.Kind != "Hook" {
			r.Fail("C09/zombie-ran-user-code", "the zombie's behaviour saw %s", e.String())
			return
		}
	}
	r.Count("zombie-checked")
}

// concurrent failures on several levels of one subtree (siblings, their supervisor, grandchildren)
func c09Concurrent(r *R) {
	w := newWorld(r, WorldOpt{})
	if r.Failed() {
		return
	}
	decs := []vivid.SupervisionDecision{vivid.SupervisionDecisionRestart, vivid.SupervisionDecisionGracefulRestart, vivid.SupervisionDecisionResume, vivid.SupervisionDecisionStop,
		vivid.SupervisionDecisionGracefulStop, vivid.SupervisionDecisionRestart, vivid.SupervisionDecisionRestart}
	draw := func(n int, ctx vivid.SupervisionContext) vivid.SupervisionDecision {
		return decs[vsimrt.Choose(vsimrt.KWork, len(decs))]
	}
	mkS := func(name string, all bool) vivid.SupervisionStrategy {
		m := w.NewMaker(name, draw)
		if all {
			return vivid.OneForAllStrategy(m)
		}
		return vivid.OneForOneStrategy(m)
	}
	oneForAll := r.Chance(50)
	n := 2 + r.Choose(3)
	sup := &Spec{Name: "sup", Strategy: mkS("sup", oneForAll)}
	paths := []string{"/top", "/top/sup"}
	for i := 0; i < n; i++ {
		c := &Spec{Name: fmt.Sprintf("c%d", i)}
		paths = append(paths, "/top/sup/"+c.Name)
		if r.Chance(50) {
			c.Children = []*Spec{{Name: "g"}}
			c.Strategy = mkS(c.Name, false)
			paths = append(paths, "/top/sup/"+c.Name+"/g")
		}
		sup.Children = append(sup.Children, c)
	}
	top := &Spec{Name: "top", Strategy: mkS("top", false), Children: []*Spec{sup}}
	if _, err := w.Spawn(top); err != nil {
		r.Fail("C09/harness", "spawn: %v", err)
		return
	}
	vsimrt.Settle()
	nFail := 2 + r.Choose(4)
	var targets []string
	for f := 0; f < nFail; f++ {
		targets = append(targets, paths[1+r.Choose(len(paths)-1)])
	}
	r.Sample(map[string]any{"paths": paths, "one_for_all": oneForAll, "failing": targets})
	var wg sync.WaitGroup
	for _, target := range targets {
		target := target
		wg.Add(1)
		vsimrt.Go("c09.failer", func() {
			defer wg.Done()
			ref := w.RefBy("create", nil, target)
			w.Tell(ref, w.NewCmd("pre", 0, nil))
			w.Tell(ref, w.NewCmd("fail", 0, func(ctx vivid.ActorContext, p *Probe) { panic("concurrent failure") }))
			w.Tell(ref, w.NewCmd("post", 0, nil))
		})
	}
	r.Waiting("failers")
	wg.Wait()
	vsimrt.Yield()
	vsimrt.SettleFor(500 * time.Millisecond)
	if r.Failed() {
		return
	}
	vsimrt.Fence()
	for _, ci := range actor.VsimContexts(actor.VsimSystem(w.Sys)) {
		if ci.Path == "/" || ci.Zombie {
			continue
		}
		if ci.State == 1 {
			r.Fail("C09/half-stopped concurrent-failures", "%s is still in the killing state at quiescence (waits for %v)", ci.Path, ci.Children)
			w.DumpNotes(500)
			return
		}
		if ci.State == 0 && ci.Paused {
			r.Fail("C09/left-paused concurrent-failures", "%s is alive but still paused at quiescence", ci.Path)
			w.DumpNotes(500)
			return
		}
	}
	// probes: processed by whoever is registered under the path now, dead-lettered otherwise
	ids := map[string]int{}
	alive := map[string]bool{}
	vsimrt.Fence()
	for _, ci := range actor.VsimContexts(actor.VsimSystem(w.Sys)) {
		alive[ci.Path] = ci.State == 0
	}
	for _, p := range paths {
		c := w.NewCmd("probe", 0, nil)
		ids[p] = c.ID
		w.Tell(w.RefBy("create", nil, p), c)
	}
	vsimrt.SettleFor(200 * time.Millisecond)
	evs := w.Events()
	for _, p := range paths {
		proc, dl := 0, 0
		for _, e := range evs {
			if e.ID == ids[p] && e.Kind == "Cmd" {
				proc++
			}
			if e.ID == ids[p] && e.Kind == "Evt:DeathLetter" {
				dl++
			}
		}
		if (alive[p] && proc != 1) || (!alive[p] && (proc != 0 || dl != 1)) {
			r.Fail("C09/probe-outcome concurrent-failures", "%s (registered and running: %v): probe processed %d times, dead-lettered %d times", p, alive[p], proc, dl)
			w.DumpNotes(500)
			return
		}
	}
	r.Count("concurrent-failures-checked")
}

// c09DoubleFailure: two failures in quick succession. A message in the middle of a queued burst fails, the supervisor
// restarts the actor, and the new incarnation fails again in its OnLaunch while the rest of the burst is still queued.
// Until the supervisor has answered the second failure the actor is suspended: the queued messages wait. They then go, in
// order, to the incarnation the second decision leaves alive (Restart: the third one; Resume: the second one) or to the
// dead letters (Stop) - each exactly once.
func c09DoubleFailure(r *R) {
	w := newWorld(r, WorldOpt{})
	if r.Failed() {
		return
	}
	first := []vivid.SupervisionDecision{vivid.SupervisionDecisionRestart, vivid.SupervisionDecisionGracefulRestart}[r.Choose(2)]
	second := []vivid.SupervisionDecision{vivid.SupervisionDecisionRestart, vivid.SupervisionDecisionStop, vivid.SupervisionDecisionResume}[r.Choose(3)]
	m := w.NewMaker("sup", func(n int, ctx vivid.SupervisionContext) vivid.SupervisionDecision {
		if n == 0 {
			return first
		}
		return second
	})
	v := &Spec{Name: "v", Provider: r.Chance(50)}
	v.OnLaunch = func(ctx vivid.ActorContext, p *Probe) {
		w.mu.Lock()
		inc := w.inc[p.Path]
		w.mu.Unlock()
		if inc == 1 {
			r.Count("second-failure-in-OnLaunch-of-the-restarted-actor")
			panic("the restarted actor fails again in OnLaunch")
		}
	}
	if _, err := w.Spawn(&Spec{Name: "sup", Strategy: vivid.OneForOneStrategy(m), Children: []*Spec{v}}); err != nil {
		r.Fail("C09/harness", "spawn: %v", err)
		return
	}
	vsimrt.Settle()
	n := 3 + r.Choose(6)
	f := r.Choose(n - 1) // at least one message is queued behind the failing one
	held := r.Chance(70)
	gate := NewGate()
	vref := w.RefBy("create", nil, "/sup/v")
	if held {
		// the whole burst queues up behind a held message, so that everything behind the failing message is in the mailbox
		w.Tell(vref, w.NewCmd("gate", 0, func(ctx vivid.ActorContext, p *Probe) { gate.Wait() }))
		vsimrt.Settle()
	}
	ids := make([]int, n)
	for i := 0; i < n; i++ {
		var do func(ctx vivid.ActorContext, p *Probe)
		if i == f {
			do = func(ctx vivid.ActorContext, p *Probe) { panic("first failure") }
		}
		c := w.NewCmd("burst", i, do)
		ids[i] = c.ID
		w.Tell(vref, c)
	}
	r.Sample(map[string]any{"first_decision": fmt.Sprint(first), "second_decision": fmt.Sprint(second), "burst": n, "failing_position": f, "held": held, "provider": v.Provider})
	if held {
		gate.Open()
	}
	vsimrt.SettleFor(500 * time.Millisecond)
	if r.Failed() {
		return
	}
	if len(m.CallList()) != 2 {
		r.Fail(fmt.Sprintf("C09/double-failure supervisor-consulted=%d", len(m.CallList())), "the supervisor was consulted %d times for two failures (first decision %v, second %v)", len(m.CallList()), first, second)
		w.DumpNotes(200)
		return
	}
	evs := w.Events()
	lives := Lives(evs)["/sup/v"]
	desc := fmt.Sprintf("burst of %d, #%d fails -> %v; the restarted actor fails in OnLaunch -> %v; lives: %s", n, f, first, second, c08LivesDesc(lives))
	// which incarnation handled which burst message
	where := map[int][]int{}
	for k, life := range lives {
		for _, e := range life.Events {
			if e.Kind == "Cmd" {
				where[e.ID] = append(where[e.ID], k)
			}
		}
	}
	dl := map[int]int{}
	for _, e := range evs {
		if e.Path == "@obs" && e.Kind == "Evt:DeathLetter" && e.ID != 0 {
			dl[e.ID]++
		}
	}
	// the suspended second incarnation handles nothing unless it was resumed
	if second != vivid.SupervisionDecisionResume && len(lives) > 1 {
		for _, e := range lives[1].Events {
			if e.Kind == "Cmd" {
				r.Fail("C09/suspended-actor-handled-queued-mail second-decision="+fmt.Sprint(second), "%s: incarnation 1 failed in OnLaunch and was waiting for its supervisor, yet it handled %s", desc, e.String())
				w.DumpNotes(200)
				return
			}
		}
	}
	wantLife := map[vivid.SupervisionDecision]int{vivid.SupervisionDecisionRestart: 2, vivid.SupervisionDecisionResume: 1}
	last := -1
	// a graceful restart lets the old incarnation work off what was queued at the time of the failure; only with the
	// handler held is the whole burst provably queued by then - otherwise a message may arrive later and is treated like
	// the mail of an immediate restart
	graceful := first == vivid.SupervisionDecisionGracefulRestart && held
	if graceful {
		wantLife[vivid.SupervisionDecisionRestart], wantLife[vivid.SupervisionDecisionResume] = 0, 0
	}
	for i := f + 1; i < n; i++ {
		id := ids[i]
		if first == vivid.SupervisionDecisionGracefulRestart && !held && len(where[id]) == 1 && where[id][0] == 0 && dl[id] == 0 {
			continue
		}
		switch {
		case graceful:
			if len(where[id]) != 1 || where[id][0] != 0 || dl[id] != 0 {
				r.Fail("C09/double-failure queued-mail-misdelivered first-decision=graceful-restart", "%s: queued message #%d was handled by incarnation(s) %v (dead letters %d); a graceful restart processes the queued mail before restarting: expected exactly once by incarnation 0", desc, i, where[id], dl[id])
				w.DumpNotes(200)
				return
			}
		case second == vivid.SupervisionDecisionStop:
			if len(where[id]) != 0 || dl[id] != 1 {
				r.Fail("C09/double-failure queued-mail-after-stop", "%s: queued message #%d was handled by incarnation(s) %v and published %d time(s) as a dead letter (expected: not handled, one dead letter)", desc, i, where[id], dl[id])
				w.DumpNotes(200)
				return
			}
		default:
			if len(where[id]) != 1 || where[id][0] != wantLife[second] || dl[id] != 0 {
				r.Fail("C09/double-failure queued-mail-misdelivered second-decision="+fmt.Sprint(second), "%s: queued message #%d was handled by incarnation(s) %v (dead letters %d); expected exactly once by incarnation %d", desc, i, where[id], dl[id], wantLife[second])
				w.DumpNotes(200)
				return
			}
		}
	}
	// order among the redelivered messages
	if (graceful || second != vivid.SupervisionDecisionStop) && (held || first != vivid.SupervisionDecisionGracefulRestart) && len(lives) > wantLife[second] {
		pos := map[int]int{}
		for i, id := range ids {
			pos[id] = i
		}
		for _, e := range lives[wantLife[second]].Events {
			if i, ok := pos[e.ID]; ok && e.Kind == "Cmd" && i > f {
				if i < last {
					r.Fail("C09/double-failure queued-mail-reordered", "%s: message #%d was handled after #%d", desc, i, last)
					return
				}
				last = i
			}
		}
	}
	r.Count("double-failure-checked")
	// nobody stays paused; the survivor processes later mail
	vsimrt.Fence()
	for _, ci := range actor.VsimContexts(actor.VsimSystem(w.Sys)) {
		if ci.Path == "/sup/v" && ci.Paused && ci.State == 0 {
			r.Fail("C09/left-paused after-double-failure second-decision="+fmt.Sprint(second), "%s: /sup/v is alive but its mailbox is still paused", desc)
			return
		}
	}
	if second != vivid.SupervisionDecisionStop {
		pc := w.NewCmd("probe", 0, nil)
		w.Tell(vref, pc)
		vsimrt.SettleFor(100 * time.Millisecond)
		ok := false
		for _, e := range w.Events() {
			if e.Kind == "Cmd" && e.ID == pc.ID {
				ok = true
			}
		}
		if !ok {
			r.Fail("C09/probe-not-processed after-double-failure second-decision="+fmt.Sprint(second), "%s: a message sent afterwards was not processed", desc)
			w.DumpNotes(200)
			return
		}
	}
	_ = w.Stop(30 * time.Second)
}

// c09FailureDuringStop: a subtree (or the whole system) is being stopped - gracefully, so the termination request queues
// behind the mail the actors already hold, or immediately - while some of that mail fails. The supervisors, themselves on
// their way out, are still consulted and may answer anything, including Escalate. Whatever they answer, the stop has to
// come to an end: nobody in the subtree stays paused or half-stopped, and whoever survives outside it keeps working.
func c09FailureDuringStop(r *R) {
	w := newWorld(r, WorldOpt{})
	if r.Failed() {
		return
	}
	decs := []vivid.SupervisionDecision{vivid.SupervisionDecisionRestart, vivid.SupervisionDecisionGracefulRestart, vivid.SupervisionDecisionResume, vivid.SupervisionDecisionStop,
		vivid.SupervisionDecisionGracefulStop, vivid.SupervisionDecisionEscalate, vivid.SupervisionDecisionEscalate}
	used := map[string]bool{}
	var umu sync.Mutex
	mkS := func(name string, all bool) vivid.SupervisionStrategy {
		m := w.NewMaker(name, func(n int, ctx vivid.SupervisionContext) vivid.SupervisionDecision {
			d := decs[vsimrt.Choose(vsimrt.KWork, len(decs))]
			umu.Lock()
			used[name+":"+fmt.Sprint(d)] = true
			umu.Unlock()
			return d
		})
		if all {
			return vivid.OneForAllStrategy(m)
		}
		return vivid.OneForOneStrategy(m)
	}
	oneForAll := r.Chance(40)
	n := 1 + r.Choose(3)
	sup := &Spec{Name: "sup", Strategy: mkS("sup", oneForAll)}
	leaves := []string{}
	for i := 0; i < n; i++ {
		c := &Spec{Name: fmt.Sprintf("c%d", i)}
		if r.Chance(40) {
			c.Children = []*Spec{{Name: "g"}}
			c.Strategy = mkS(c.Name, false)
			leaves = append(leaves, "/top/sup/"+c.Name+"/g")
		}
		leaves = append(leaves, "/top/sup/"+c.Name)
		sup.Children = append(sup.Children, c)
	}
	top := &Spec{Name: "top", Strategy: mkS("top", false), Children: []*Spec{sup}}
	if _, err := w.Spawn(top); err != nil {
		r.Fail("C09/harness", "spawn: %v", err)
		return
	}
	vsimrt.Settle()
	what := r.Choose(3) // 0 Kill(/top/sup), 1 Kill(/top), 2 ActorSystem.Stop
	poison := r.Chance(75)
	held := r.Chance(70)
	gate := NewGate()
	nFail := 1 + r.Choose(2)
	var failing []string
	for f := 0; f < nFail; f++ {
		failing = append(failing, leaves[r.Choose(len(leaves))])
	}
	for _, p := range leaves {
		ref := w.RefBy("create", nil, p)
		if held {
			w.Tell(ref, w.NewCmd("gate", 0, func(ctx vivid.ActorContext, p *Probe) { gate.Wait() }))
		}
		w.Tell(ref, w.NewCmd("pre", 0, nil))
		for _, f := range failing {
			if f == p {
				w.Tell(ref, w.NewCmd("fail", 0, func(ctx vivid.ActorContext, p *Probe) { panic("failure while the subtree is being stopped") }))
			}
		}
		w.Tell(ref, w.NewCmd("post", 0, nil))
	}
	target := []string{"/top/sup", "/top", "/"}[what]
	r.Sample(map[string]any{"stopped": target, "graceful": poison, "held": held, "failing": failing, "one_for_all": oneForAll, "children": n})
	var stopErr error
	stopped := make(chan struct{})
	switch what {
	case 0, 1:
		w.Sys.Kill(w.RefBy("create", nil, target), poison, "scripted stop")
		close(stopped)
	default:
		vsimrt.Go("c09.stop", func() {
			stopErr = w.Sys.Stop(20 * time.Second)
			close(stopped)
		})
	}
	if held {
		vsimrt.SettleFor(time.Millisecond)
		gate.Open()
	}
	r.Waiting("the stop issued while mail of the subtree fails")
	vsimrt.Recv(stopped)
	vsimrt.SettleFor(time.Second)
	if r.Failed() {
		return
	}
	umu.Lock()
	var ds []string
	for k := range used {
		ds = append(ds, k)
	}
	umu.Unlock()
	sort.Strings(ds)
	desc := fmt.Sprintf("%s of %s (graceful: %v) while %v fail; supervisors answered %v", []string{"Kill", "Kill", "ActorSystem.Stop"}[what], target, poison, failing, ds)
	if what == 2 {
		if stopErr != nil {
			r.Fail("C09/half-stopped failure-during-stop system-stop", "%s: Stop returned %v", desc, stopErr)
			w.DumpNotes(400)
			return
		}
		r.Count("failure-during-system-stop-checked")
		return
	}
	vsimrt.Fence()
	for _, ci := range actor.VsimContexts(actor.VsimSystem(w.Sys)) {
		if ci.Path == "/" {
			continue
		}
		if ci.Path == target || strings.HasPrefix(ci.Path, target+"/") {
			r.Fail("C09/half-stopped failure-during-stop", "%s: %s is still registered (state=%d paused=%v zombie=%v, waits for %v)", desc, ci.Path, ci.State, ci.Paused, ci.Zombie, ci.Children)
			w.DumpNotes(400)
			return
		}
		if ci.State != 0 || ci.Paused {
			r.Fail("C09/left-paused failure-during-stop", "%s: %s, outside the stopped subtree, is left with state=%d paused=%v", desc, ci.Path, ci.State, ci.Paused)
			w.DumpNotes(400)
			return
		}
	}
	if what == 0 {
		// /top outlives the stop of /top/sup unless the failure was escalated to the top, whose default is Stop
		if _, err := w.Sys.FindActor(w.RefBy("create", nil, "/top").String()); err == nil {
			pc := w.NewCmd("probe", 0, nil)
			w.Tell(w.RefBy("create", nil, "/top"), pc)
			vsimrt.SettleFor(100 * time.Millisecond)
			ok := false
			for _, e := range w.Events() {
				if e.Kind == "Cmd" && e.ID == pc.ID {
					ok = true
				}
			}
			if !ok {
				r.Fail("C09/probe-not-processed failure-during-stop", "%s: /top is alive but does not process a message sent afterwards", desc)
				w.DumpNotes(400)
				return
			}
		}
	}
	r.Count("failure-during-stop-checked")
	if err := w.Stop(30 * time.Second); err != nil {
		r.Fail("C09/half-stopped failure-during-stop final-system-stop", "%s: the system does not stop afterwards: %v", desc, err)
	}
}
