//go:build vsim

package vsimharness

import (
	"fmt"
	"sort"
	"strings"
	"sync"
	"time"

	"github.com/anishathalye/porcupine"
	"github.com/kercylan98/vivid"
	"github.com/kercylan98/vivid/internal/actor"
	"github.com/kercylan98/vivid/pkg/ves"
	vsimrt "vsimrt/simrt"
)

// C19 - the event stream delivers each event once to exactly the current subscribers (DESIGN.md 3, C19).

func init() {
	register(&Workload{Prop: "C19", Variant: "pubsub", Horizon: 10 * time.Minute, MaxSteps: 300000, MaxG: 4096, Spin: 8000, PCTLen: 3000, Body: c19PubSub})
}

type c19EvA struct{ Pub, Seq, ID int }
type c19EvB struct{ Pub, Seq, ID int }
type c19EvC struct{ Pub, Seq, ID int }

func c19Make(t, pub, seq, id int) any {
	switch t {
	case 0:
		return c19EvA{pub, seq, id}
	case 1:
		return c19EvB{pub, seq, id}
	}
	return c19EvC{pub, seq, id}
}

var c19Zero = []any{c19EvA{}, c19EvB{}, c19EvC{}}

type c19Op struct {
	Kind int // 0 sub 1 unsub 2 unsuball 3 pub
	Sub  int
	Type int
	ID   int // publish id
}

type c19Out struct{ Mask uint32 }

func c19Model(nSubs int) porcupine.Model {
	bit := func(s, t int) uint32 { return 1 << uint(s*3+t) }
	return porcupine.Model{
		Init: func() interface{} { return uint32(0) },
		Step: func(state, input, output interface{}) (bool, interface{}) {
			st := state.(uint32)
			op := input.(c19Op)
			switch op.Kind {
			case 0:
				return true, st | bit(op.Sub, op.Type)
			case 1:
				return true, st &^ bit(op.Sub, op.Type)
			case 2:
				for t := 0; t < 3; t++ {
					st &^= bit(op.Sub, t)
				}
				return true, st
			default:
				var want uint32
				for s := 0; s < nSubs; s++ {
					if st&bit(s, op.Type) != 0 {
						want |= 1 << uint(s)
					}
				}
				return want == output.(c19Out).Mask, st
			}
		},
		Equal: func(a, b interface{}) bool { return a.(uint32) == b.(uint32) },
		DescribeOperation: func(input, output interface{}) string {
			op := input.(c19Op)
			switch op.Kind {
			case 0:
				return fmt.Sprintf("sub%d.Subscribe(T%d)", op.Sub, op.Type)
			case 1:
				return fmt.Sprintf("sub%d.Unsubscribe(T%d)", op.Sub, op.Type)
			case 2:
				return fmt.Sprintf("sub%d.UnsubscribeAll/terminate", op.Sub)
			}
			return fmt.Sprintf("Publish(T%d #%d) -> received by mask %b", op.Type, op.ID, output.(c19Out).Mask)
		},
	}
}

// c19Prelauncher subscribes in OnPrelaunch, before it is known whether the spawn succeeds.
type c19Prelauncher struct{ typ int }

func (a *c19Prelauncher) OnReceive(ctx vivid.ActorContext) {}
func (a *c19Prelauncher) OnPrelaunch(ctx vivid.PrelaunchContext) error {
	ctx.EventStream().Subscribe(ctx, c19Zero[a.typ])
	return nil
}

func c19PubSub(r *R) {
	w := newWorld(r, WorldOpt{})
	if r.Failed() {
		return
	}
	sysI := actor.VsimSystem(w.Sys)
	nSubs := 2 + r.Choose(4)
	nPubs := 1 + r.Choose(3)
	var mu sync.Mutex
	type hop struct {
		op        c19Op
		call, ret int
		client    int
	}
	var hist []hop
	recvBy := map[int]map[int]int{} // publish id -> subscriber -> deliveries
	recvSeq := map[[2]int][]int{}   // (pub, sub) -> sequence numbers in arrival order, per type ignored
	recvStep := map[[2]int]int{}    // (id, sub) -> step of delivery
	addOp := func(client int, op c19Op, call, ret int) {
		mu.Lock()
		hist = append(hist, hop{op, call, ret, client})
		mu.Unlock()
	}
	onOther := func(idx int) func(ctx vivid.ActorContext, p *Probe, m any) {
		return func(ctx vivid.ActorContext, p *Probe, m any) {
			var pub, seq, id int
			switch v := m.(type) {
			case c19EvA:
				pub, seq, id = v.Pub, v.Seq, v.ID
			case c19EvB:
				pub, seq, id = v.Pub, v.Seq, v.ID
			case c19EvC:
				pub, seq, id = v.Pub, v.Seq, v.ID
			default:
				return
			}
			mu.Lock()
			if recvBy[id] == nil {
				recvBy[id] = map[int]int{}
			}
			recvBy[id][idx]++
			recvSeq[[2]int{pub, idx}] = append(recvSeq[[2]int{pub, idx}], seq)
			recvStep[[2]int{id, idx}] = vsimrt.Step()
			mu.Unlock()
		}
	}
	decide := func(n int, ctx vivid.SupervisionContext) vivid.SupervisionDecision {
		return vivid.SupervisionDecisionRestart
	}
	holder := &Spec{Name: "subs", Strategy: vivid.OneForOneStrategy(w.NewMaker("subs", decide))}
	// in half of the runs the subscribers also follow the system's own ActorKilledEvent: the event announcing a subscriber's
	// termination is published "after the subscriber has terminated" and must not be sent to it any more
	lifecycleSubs := r.Chance(50)
	for i := 0; i < nSubs; i++ {
		sp := &Spec{Name: fmt.Sprintf("s%d", i), OnOther: onOther(i)}
		if lifecycleSubs {
			sp.OnLaunch = func(ctx vivid.ActorContext, p *Probe) { ctx.EventStream().Subscribe(ctx, ves.ActorKilledEvent{}) }
		}
		holder.Children = append(holder.Children, sp)
	}
	if _, err := w.Spawn(holder); err != nil {
		r.Fail("C19/harness", "spawn: %v", err)
		return
	}
	var pubRefs []vivid.ActorRef
	for i := 0; i < nPubs; i++ {
		ref, _ := w.Spawn(&Spec{Name: fmt.Sprintf("p%d", i)})
		pubRefs = append(pubRefs, ref)
	}
	vsimrt.Settle()
	subRef := func(i int) vivid.ActorRef { return w.RefBy("create", nil, fmt.Sprintf("/subs/s%d", i)) }

	nOps := 6 + r.Choose(30)
	type planned struct {
		kind, sub, typ, pub int
		outside             bool
	}
	var plan []planned
	var pdesc []string
	killed := map[int]bool{}
	for i := 0; i < nOps; i++ {
		p := planned{sub: r.Choose(nSubs), typ: r.Choose(3), pub: r.Choose(nPubs), outside: r.Chance(40)}
		switch x := r.Choose(21); {
		case x == 20:
			p.kind = 6 // a spawn under the subscriber's name is refused; the refused actor subscribes in its OnPrelaunch
		case x < 6:
			p.kind = 0
		case x < 8:
			p.kind = 1
		case x < 9:
			p.kind = 2
		case x < 17:
			p.kind = 3
		case x < 18:
			p.kind = 4 // kill subscriber
		default:
			p.kind = 5 // restart subscriber (failure)
		}
		if killed[p.sub] && p.kind != 3 {
			p.kind = 3
		}
		if p.kind == 4 {
			killed[p.sub] = true
		}
		plan = append(plan, p)
		pdesc = append(pdesc, fmt.Sprintf("%s(s%d,T%d,p%d)", []string{"Sub", "Unsub", "UnsubAll", "Pub", "Kill", "Restart", "RefusedSpawn"}[p.kind], p.sub, p.typ, p.pub))
	}
	for i := range plan {
		// the refused spawn needs the name to be taken for the whole run
		if plan[i].kind == 6 && killed[plan[i].sub] {
			plan[i].kind = 3
			pdesc[i] = fmt.Sprintf("Pub(s%d,T%d,p%d)", plan[i].sub, plan[i].typ, plan[i].pub)
		}
	}
	r.Sample(map[string]any{"subscribers": nSubs, "publishers": nPubs, "ops": pdesc})
	// operations are issued by nDrivers concurrent outside goroutines; subscriber-side operations run inside the
	// subscriber's own handler (one at a time per subscriber), publishes inside publisher actors or directly from outside
	nDrivers := 1 + r.Choose(3)
	pubSeq := make([]int, nPubs+1)
	var seqMu sync.Mutex
	var killCall = map[int]int{}
	var wg sync.WaitGroup
	var pending sync.WaitGroup
	for d := 0; d < nDrivers; d++ {
		d := d
		wg.Add(1)
		vsimrt.Go("c19.driver", func() {
			defer wg.Done()
			for i := d; i < len(plan); i += nDrivers {
				p := plan[i]
				switch p.kind {
				case 0, 1, 2:
					pending.Add(1)
					w.Tell(subRef(p.sub), w.NewCmd("drv", i, func(ctx vivid.ActorContext, pr *Probe) {
						defer pending.Done()
						call := vsimrt.Step()
						switch p.kind {
						case 0:
							ctx.EventStream().Subscribe(ctx, c19Zero[p.typ])
						case 1:
							ctx.EventStream().Unsubscribe(ctx, c19Zero[p.typ])
						case 2:
							ctx.EventStream().UnsubscribeAll(ctx)
						}
						vsimrt.Yield()
						addOp(100+p.sub, c19Op{Kind: p.kind, Sub: p.sub, Type: p.typ}, call, vsimrt.Step())
					}))
				case 3:
					id := w.NewID()
					if p.outside {
						seqMu.Lock()
						pubSeq[nPubs]++ // all outside publishers share no ordering guarantee: each driver is its own publisher id
						seqMu.Unlock()
						call := vsimrt.Step()
						sysI.EventStream().Publish(sysI, c19Make(p.typ, 1000+d*1000+i, 0, id))
						vsimrt.Yield()
						addOp(d, c19Op{Kind: 3, Type: p.typ, ID: id}, call, vsimrt.Step())
						r.Count("publish-from-outside-goroutine")
					} else {
						pending.Add(1)
						w.Tell(pubRefs[p.pub], w.NewCmd("drv", i, func(ctx vivid.ActorContext, pr *Probe) {
							defer pending.Done()
							seqMu.Lock()
							pubSeq[p.pub]++
							seq := pubSeq[p.pub]
							seqMu.Unlock()
							call := vsimrt.Step()
							ctx.EventStream().Publish(ctx, c19Make(p.typ, p.pub, seq, id))
							vsimrt.Yield()
							addOp(200+p.pub, c19Op{Kind: 3, Type: p.typ, ID: id}, call, vsimrt.Step())
						}))
					}
				case 4:
					mu.Lock()
					killCall[p.sub] = vsimrt.Step()
					mu.Unlock()
					w.Sys.Kill(subRef(p.sub), r.Chance(50), "scripted")
					r.Count("subscriber-killed")
				case 5:
					w.Tell(subRef(p.sub), w.NewCmd("drv", i, func(ctx vivid.ActorContext, pr *Probe) { panic("scripted failure -> restart") }))
					r.Count("subscriber-restarted")
				case 6:
					// "subscribe to the event stream before the actor starts" is what OnPrelaunch is documented for. The spawn is
					// refused because the name is taken: the actor never existed, so nothing it did may stay behind - above all
					// not a subscription under the path of the actor that holds the name, which never asked for those events
					pending.Add(1)
					w.Tell(w.RefBy("create", nil, "/subs"), w.NewCmd("drv", i, func(ctx vivid.ActorContext, pr *Probe) {
						defer pending.Done()
						_, err := ctx.ActorOf(&c19Prelauncher{typ: p.typ}, vivid.WithActorName(fmt.Sprintf("s%d", p.sub)))
						if err == nil {
							r.Fail("C19/harness", "a second actor named s%d was accepted", p.sub)
						}
						r.Count("refused-spawn-that-subscribed-in-OnPrelaunch")
					}))
				}
			}
		})
	}
	r.Waiting("drivers")
	wg.Wait()
	vsimrt.Yield()
	vsimrt.SettleFor(500 * time.Millisecond)
	if r.Failed() {
		return
	}
	evs := w.Events()
	// terminated subscribers: model their termination as an UnsubscribeAll spanning [kill call, ActorKilledEvent observed]
	killedStep := map[int]int{}
	for _, e := range evs {
		if e.Path == "@obs" && e.Kind == "Evt:ActorKilled" && strings.HasPrefix(e.Ref, "/subs/s") {
			var idx int
			fmt.Sscanf(e.Ref, "/subs/s%d", &idx)
			killedStep[idx] = e.Step
		}
	}
	mu.Lock()
	defer mu.Unlock()
	for s, st := range killedStep {
		hist = append(hist, hop{c19Op{Kind: 2, Sub: s}, killCall[s], st, 300 + s})
	}
	// dead letters count as "sent to that subscriber" for the set semantics (a dying actor turns its mail into dead letters)
	dlBy := map[int]map[int]bool{} // publish id -> subscribers for which it was dead-lettered
	for _, e := range evs {
		if e.Path == "@obs" && e.Kind == "Evt:DeathLetter" && strings.HasPrefix(e.Ref, "/subs/s") && strings.Contains(e.Info, "c19Ev") {
			var idx int
			fmt.Sscanf(e.Ref, "/subs/s%d", &idx)
			if dlBy[e.ID] == nil {
				dlBy[e.ID] = map[int]bool{}
			}
			dlBy[e.ID][idx] = true
		}
	}
	maskOf := func(id int) uint32 {
		var mask uint32
		for s := range recvBy[id] {
			mask |= 1 << uint(s)
		}
		for s := range dlBy[id] {
			mask |= 1 << uint(s)
		}
		return mask
	}
	for _, e := range evs {
		if e.Path == "@obs" && e.Kind == "Evt:DeathLetter" && strings.HasPrefix(e.Ref, "/subs/s") && e.Info == "ves.ActorKilledEvent of="+e.Ref {
			r.Fail("C19/own-killed-event-sent-to-terminated-subscriber", "%s subscribed to ActorKilledEvent; the event announcing its own termination was still sent to it (and became a dead letter)", e.Ref)
			return
		}
	}
	// 0. an event published after a subscriber's ActorKilledEvent was observed is neither delivered to it nor dead-lettered for it
	for _, h := range hist {
		if h.op.Kind != 3 {
			continue
		}
		for s, ks := range killedStep {
			if h.call > ks && maskOf(h.op.ID)&(1<<uint(s)) != 0 {
				r.Fail("C19/sent-to-terminated-subscriber", "event #%d was published (step %d) after the ActorKilledEvent of s%d was observed (step %d) and was still sent to it", h.op.ID, h.call, s, ks)
				return
			}
		}
	}
	// 1. no duplicates
	for id, m := range recvBy {
		for s, n := range m {
			if n > 1 {
				r.Fail("C19/duplicate-delivery", "event #%d was delivered %d times to subscriber s%d", id, n, s)
				return
			}
		}
	}
	// 2. per-publisher order (actor publishers only; their publishes are sequential)
	for k, seqs := range recvSeq {
		if k[0] >= 1000 {
			continue
		}
		for i := 1; i < len(seqs); i++ {
			if seqs[i] <= seqs[i-1] {
				r.Fail("C19/publisher-order", "subscriber s%d received the events of publisher p%d in order %v", k[1], k[0], seqs)
				return
			}
		}
	}
	// 3. deliveries after termination
	for id, m := range recvBy {
		for s := range m {
			if ks, ok := killedStep[s]; ok && recvStep[[2]int{id, s}] > ks {
				r.Fail("C19/delivery-after-termination", "event #%d was delivered to s%d after its ActorKilledEvent", id, s)
				return
			}
		}
	}
	// 4. linearizability of the set semantics
	if len(hist) <= 45 {
		var ops []porcupine.Operation
		for _, h := range hist {
			var out interface{} = c19Out{}
			if h.op.Kind == 3 {
				out = c19Out{Mask: maskOf(h.op.ID)}
			}
			ops = append(ops, porcupine.Operation{ClientId: h.client, Input: h.op, Call: int64(h.call), Output: out, Return: int64(h.ret)})
		}
		// dead-lettered events were sent to a dying subscriber: accept either outcome by checking both masks is not
		// possible per event in porcupine; instead a dying subscriber's dead letters are ignored here and its
		// termination window [kill call, killed event] lets the UnsubscribeAll linearize anywhere inside it.
		res := porcupine.CheckOperationsTimeout(c19Model(nSubs), ops, 20*time.Second)
		switch res {
		case porcupine.Illegal:
			var lines []string
			sort.Slice(hist, func(i, j int) bool { return hist[i].call < hist[j].call })
			m := c19Model(nSubs)
			for _, h := range hist {
				var out interface{} = c19Out{}
				if h.op.Kind == 3 {
					out = c19Out{Mask: maskOf(h.op.ID)}
				}
				lines = append(lines, fmt.Sprintf("[%d,%d] %s", h.call, h.ret, m.DescribeOperation(h.op, out)))
			}
			r.Fail("C19/not-linearizable", "no order of the Subscribe/Unsubscribe/Publish operations consistent with their real-time order explains which subscribers received which event: %s", strings.Join(lines, "; "))
			return
		case porcupine.Unknown:
			r.Count("porcupine-unknown(timeout)")
		default:
			r.Count("porcupine-ok")
		}
	} else {
		r.Count("history-too-long-for-porcupine")
	}
	// 5. no table entry for a terminated subscriber
	vsimrt.Fence()
	byType, bySub := actor.VsimEventStreamTables(sysI)
	for s := range killedStep {
		p := fmt.Sprintf("/subs/s%d", s)
		if ts, ok := bySub[p]; ok {
			r.Fail("C19/stale-table-entry", "terminated subscriber %s still has an entry in subscriberTypes: %v", p, ts)
			return
		}
		for t, subs := range byType {
			for _, q := range subs {
				if q == p {
					r.Fail("C19/stale-table-entry", "terminated subscriber %s is still listed under event type %s", p, t)
					return
				}
			}
		}
	}
}
