//go:build vsim

package vsimharness

import (
	"bufio"
	"crypto/sha256"
	"encoding/hex"
	"encoding/json"
	"fmt"
	"os"
	"strconv"
	"testing"
	"time"

	vsimrt "vsimrt/simrt"
)

// Job is what the driver hands to a worker process (env VSIM_JOB, JSON).
type Job struct {
	Mode     string   `json:"mode"` // batch | replay | minimise | trace | list
	Prop     string   `json:"prop"`
	Tier     string   `json:"tier"`
	Base     uint64   `json:"base"`  // VERIF_SEED
	Start    int      `json:"start"` // first run index
	Count    int      `json:"count"`
	Stride   int      `json:"stride"`   // run indices start, start+stride, ...
	Deadline int64    `json:"deadline"` // unix seconds; stop the batch when reached (0 = none)
	Variants []string `json:"variants"` // restrict to these variants (empty = all)
	File     string   `json:"file"`     // replay file (replay/minimise)
	Out      string   `json:"out"`      // where minimise writes the minimised replay
	Budget   int      `json:"budget"`   // minimiser: max re-executions
}

// ReplayFile is the on-disk form of a failing run.
type ReplayFile struct {
	Property    string      `json:"property"`
	Variant     string      `json:"variant"`
	Tier        string      `json:"tier"`
	RunSeed     uint64      `json:"run_seed"`
	RunIndex    int         `json:"run_index"`
	Class       string      `json:"class"`
	Msg         string      `json:"msg"`
	Hash        uint64      `json:"schedule_hash"`
	Steps       int         `json:"steps"`
	Minimised   bool        `json:"minimised"`
	OrigTapeLen int         `json:"orig_tape_len"`
	NonZero     int         `json:"nonzero_choices"`
	Tape        [][3]uint32 `json:"tape"` // (kind, n, value)
	Notes       []string    `json:"notes,omitempty"`
}

func tapeToJSON(t []vsimrt.Draw) [][3]uint32 {
	out := make([][3]uint32, len(t))
	for i, d := range t {
		out[i] = [3]uint32{uint32(d.K), d.N, d.V}
	}
	return out
}

func tapeFromJSON(t [][3]uint32) []vsimrt.Draw {
	out := make([]vsimrt.Draw, len(t))
	for i, d := range t {
		out[i] = vsimrt.Draw{K: uint8(d[0]), N: d[1], V: d[2]}
	}
	return out
}

var out *bufio.Writer

func emit(kind string, v any) {
	b, err := json.Marshal(v)
	if err != nil {
		b = []byte(fmt.Sprintf(`{"error":%q}`, err.Error()))
	}
	out.WriteString("VSIM-" + kind + " ")
	out.Write(b)
	out.WriteString("\n")
	out.Flush()
}

// runSeedOf derives the seed of run #idx of a batch from VERIF_SEED.
func runSeedOf(base uint64, prop string, idx int) uint64 {
	h := splitmix(base*0x100000001B3 + uint64(idx))
	for _, c := range []byte(prop) {
		h = splitmix(h ^ uint64(c))
	}
	return h
}

// pickVariant maps a run index to a workload variant (weighted round robin) and to the ordinal of that run
// among the runs of the same variant (enumerated dimensions are derived from the ordinal).
func pickVariant(ws []*Workload, idx int) (*Workload, int) {
	tot := 0
	for _, w := range ws {
		tot += w.Weight
	}
	k := idx % tot
	for _, w := range ws {
		if k < w.Weight {
			return w, (idx/tot)*w.Weight + k
		}
		k -= w.Weight
	}
	return ws[0], idx
}

// Agg is the per-process aggregate of a batch.
type Agg struct {
	Runs       int            `json:"runs"`
	Steps      int64          `json:"steps"`
	SimNs      int64          `json:"sim_ns"`
	Preempted  int            `json:"preempted_runs"`
	Ext        int            `json:"ext"`
	Created    int64          `json:"created"`
	Hashes     []uint64       `json:"hashes"`     // schedule hashes of all runs
	NonTriv    []uint64       `json:"nontrivial"` // hashes of runs with >=1 pre-emption or >=1 fired fault
	Kinds      map[string]int `json:"kinds"`
	Counts     map[string]int `json:"counts"`
	PerVariant map[string]int `json:"per_variant"`
	Samples    []any          `json:"samples"`
	Undecided  map[string]int `json:"undecided"`
	NextIdx    int            `json:"next_idx"`
	WallMs     int64          `json:"wall_ms"`
}

func TestWorker(t *testing.T) {
	js := os.Getenv("VSIM_JOB")
	if js == "" {
		t.Skip("no VSIM_JOB")
	}
	var job Job
	if err := json.Unmarshal([]byte(js), &job); err != nil {
		t.Fatalf("bad job: %v", err)
	}
	out = bufio.NewWriterSize(os.Stdout, 1<<16)
	defer out.Flush()
	switch job.Mode {
	case "list":
		var l []map[string]any
		for _, w := range workloads {
			l = append(l, map[string]any{"prop": w.Prop, "variant": w.Variant, "race": w.Race, "weight": w.Weight})
		}
		emit("LIST", l)
	case "batch":
		runBatch(t, job)
	case "seed":
		ws := selectWorkloads(job)
		if len(ws) == 0 {
			emit("ERROR", map[string]string{"error": "no workload"})
			return
		}
		fmt.Fprintf(os.Stderr, "VSIM-RUN 0 %d %s\n", job.Base, ws[0].Variant)
		res := execute(t, ws[0], job.Tier, job.Base, job.Start, execOpts{})
		if !res.OK {
			emit("FAIL", map[string]any{"idx": 0, "res": res, "tape": tapeToJSON(res.Tape)})
		}
		emit("AGG", Agg{Runs: 1})
	case "det":
		// determinism self-test: one run with the full schedule trace; emits a digest of everything observable
		ws := selectWorkloads(job)
		if len(ws) == 0 {
			emit("ERROR", map[string]string{"error": "no workload"})
			return
		}
		// history independence: job.Count other runs executed first in this process must not change the result
		for k := 1; k <= job.Count; k++ {
			_ = execute(t, ws[0], job.Tier, job.Base+uint64(k)*7919, job.Start+k, execOpts{})
		}
		res := execute(t, ws[0], job.Tier, job.Base, job.Start, execOpts{trace: true, keepTape: true})
		h := sha256.New()
		for _, l := range res.Trace {
			h.Write([]byte(l))
			h.Write([]byte{10})
		}
		for _, d := range res.Tape {
			fmt.Fprintf(h, "%d,%d,%d;", d.K, d.N, d.V)
		}
		for _, n := range res.Notes {
			h.Write([]byte(n))
		}
		cls := ""
		if res.Viol != nil {
			cls = res.Viol.Class
		}
		fmt.Fprintf(h, "|%s|%d|%d|%d", cls, res.Steps, res.SimNs, res.Hash)
		emit("DET", map[string]any{"digest": hex.EncodeToString(h.Sum(nil)), "steps": res.Steps, "trace_len": len(res.Trace), "tape_len": len(res.Tape), "ext": res.Ext, "class": cls, "sim_ns": res.SimNs})
		if job.File == "dump" {
			for i, l := range res.Trace {
				out.WriteString(fmt.Sprintf("VSIM-TRACE %d %s\n", i, l))
			}
		}
	case "replay", "trace":
		runReplay(t, job)
	case "minimise":
		runMinimise(t, job)
	default:
		t.Fatalf("unknown mode %q", job.Mode)
	}
}

func selectWorkloads(job Job) []*Workload {
	ws := workloadsOf(job.Prop)
	if len(job.Variants) > 0 {
		var f []*Workload
		for _, w := range ws {
			for _, v := range job.Variants {
				if w.Variant == v {
					f = append(f, w)
				}
			}
		}
		ws = f
	}
	if vsimrt.RaceEnabled {
		var f []*Workload
		for _, w := range ws {
			if w.Race {
				f = append(f, w)
			}
		}
		ws = f
	}
	return ws
}

func runBatch(t *testing.T, job Job) {
	ws := selectWorkloads(job)
	if len(ws) == 0 && len(job.Variants) > 0 && vsimrt.RaceEnabled {
		// an explicit --variant filter that names no workload of the -race share: nothing to run in this binary
		emit("AGG", Agg{Kinds: map[string]int{}, Counts: map[string]int{}, PerVariant: map[string]int{}, Undecided: map[string]int{}})
		return
	}
	if len(ws) == 0 {
		emit("ERROR", map[string]string{"error": "no workload for " + job.Prop})
		return
	}
	if job.Stride <= 0 {
		job.Stride = 1
	}
	agg := Agg{Kinds: map[string]int{}, Counts: map[string]int{}, PerVariant: map[string]int{}, Undecided: map[string]int{}}
	t0 := time.Now()
	idx := job.Start
	for n := 0; n < job.Count; n++ {
		if job.Deadline > 0 && time.Now().Unix() >= job.Deadline {
			break
		}
		w, ord := pickVariant(ws, idx)
		seed := runSeedOf(job.Base, job.Prop, idx)
		fmt.Fprintf(os.Stderr, "VSIM-RUN %d %d %s %d\n", idx, seed, w.Variant, ord)
		res := execute(t, w, job.Tier, seed, ord, execOpts{})
		agg.Runs++
		agg.Steps += int64(res.Steps)
		agg.SimNs += res.SimNs
		agg.Ext += res.Ext
		agg.Created += int64(res.Created)
		agg.PerVariant[w.Variant]++
		faults := 0
		for k, v := range res.Kinds {
			agg.Kinds[k] += v
		}
		for k, v := range res.Counts {
			agg.Counts[k] += v
			if len(k) > 6 && k[:6] == "fault:" {
				faults += v
			}
		}
		agg.Hashes = append(agg.Hashes, res.Hash)
		if res.Preempt > 0 || faults > 0 {
			agg.NonTriv = append(agg.NonTriv, res.Hash)
			if res.Preempt > 0 {
				agg.Preempted++
			}
		}
		if res.Sample != nil && len(agg.Samples) < 3 {
			agg.Samples = append(agg.Samples, map[string]any{"run_seed": strconv.FormatUint(seed, 10), "variant": w.Variant, "steps": res.Steps, "case": res.Sample})
		}
		if res.Undecided != "" {
			agg.Undecided[res.Undecided]++
		}
		if !res.OK {
			emit("FAIL", map[string]any{"idx": idx, "ord": ord, "res": res, "tape": tapeToJSON(res.Tape)})
		}
		idx += job.Stride
	}
	agg.NextIdx = idx
	agg.WallMs = time.Since(t0).Milliseconds()
	emit("AGG", agg)
}

func loadReplay(path string) (*ReplayFile, error) {
	b, err := os.ReadFile(path)
	if err != nil {
		return nil, err
	}
	var rf ReplayFile
	if err := json.Unmarshal(b, &rf); err != nil {
		return nil, err
	}
	return &rf, nil
}

func runReplay(t *testing.T, job Job) {
	rf, err := loadReplay(job.File)
	if err != nil {
		emit("ERROR", map[string]string{"error": err.Error()})
		return
	}
	w := findWorkload(rf.Property, rf.Variant)
	if w == nil {
		emit("ERROR", map[string]string{"error": "unknown workload " + rf.Property + "/" + rf.Variant})
		return
	}
	tape := tapeFromJSON(rf.Tape)
	if tape == nil {
		tape = []vsimrt.Draw{}
	}
	res := execute(t, w, rf.Tier, rf.RunSeed, rf.RunIndex, execOpts{replay: tape, strict: true, trace: job.Mode == "trace"})
	emit("REPLAY", map[string]any{"res": res, "expected_class": rf.Class, "same": res.Viol != nil && res.Viol.Class == rf.Class})
	if job.Mode == "trace" {
		for _, l := range res.Trace {
			out.WriteString("VSIM-TRACE " + l + "\n")
		}
	}
}

// runMinimise shrinks the tape of a failing run while the same violation class recurs (DESIGN.md 2.9).
func runMinimise(t *testing.T, job Job) {
	rf, err := loadReplay(job.File)
	if err != nil {
		emit("ERROR", map[string]string{"error": err.Error()})
		return
	}
	w := findWorkload(rf.Property, rf.Variant)
	if w == nil {
		emit("ERROR", map[string]string{"error": "unknown workload"})
		return
	}
	budget := job.Budget
	if budget <= 0 {
		budget = 400
	}
	deadline := time.Now().Add(30 * time.Second)
	cur := tapeFromJSON(rf.Tape)
	execs := 0
	var best Result
	try := func(cand []vsimrt.Draw) bool {
		if execs >= budget || time.Now().After(deadline) {
			return false
		}
		execs++
		res := execute(t, w, rf.Tier, rf.RunSeed, rf.RunIndex, execOpts{replay: cand, keepTape: true})
		if res.Viol != nil && res.Viol.Class == rf.Class {
			best = res
			return true
		}
		return false
	}
	if cur == nil {
		cur = []vsimrt.Draw{}
	}
	if !try(cur) {
		emit("MIN", map[string]any{"ok": false, "why": "the recorded tape does not reproduce the violation", "execs": execs})
		return
	}
	cur = best.Tape
	// pass 1: truncate the tail (missing entries read as 0)
	for cut := len(cur) / 2; cut >= 1; cut /= 2 {
		for len(cur) > cut {
			cand := append([]vsimrt.Draw(nil), cur[:len(cur)-cut]...)
			if try(cand) {
				cur = cand
			} else {
				break
			}
		}
	}
	// pass 2: zero blocks of 2^k entries
	for blk := 1 << 10; blk >= 1; blk >>= 1 {
		for i := 0; i < len(cur); i += blk {
			end := i + blk
			if end > len(cur) {
				end = len(cur)
			}
			any := false
			for j := i; j < end; j++ {
				if cur[j].V != 0 {
					any = true
				}
			}
			if !any {
				continue
			}
			cand := append([]vsimrt.Draw(nil), cur...)
			for j := i; j < end; j++ {
				cand[j].V = 0
			}
			if try(cand) {
				cur = cand
			}
		}
	}
	// pass 3: lower single non-zero values
	for i := 0; i < len(cur); i++ {
		if cur[i].V > 1 {
			cand := append([]vsimrt.Draw(nil), cur...)
			cand[i].V = 1
			if try(cand) {
				cur = cand
			}
		}
	}
	// final: re-run to obtain the exact tape the minimised run produces (strict replay needs it)
	final := execute(t, w, rf.Tier, rf.RunSeed, rf.RunIndex, execOpts{replay: cur, keepTape: true})
	if final.Viol == nil || final.Viol.Class != rf.Class {
		emit("MIN", map[string]any{"ok": false, "why": "minimised tape stopped reproducing", "execs": execs})
		return
	}
	tape := final.Tape
	// trailing zeros are implied
	for len(tape) > 0 && tape[len(tape)-1].V == 0 {
		tape = tape[:len(tape)-1]
	}
	nz := 0
	for _, d := range tape {
		if d.V != 0 {
			nz++
		}
	}
	o := ReplayFile{Property: rf.Property, Variant: rf.Variant, Tier: rf.Tier, RunSeed: rf.RunSeed, RunIndex: rf.RunIndex, Class: rf.Class, Msg: final.Viol.Msg,
		Hash: final.Hash, Steps: final.Steps, Minimised: true, OrigTapeLen: len(rf.Tape), NonZero: nz, Tape: tapeToJSON(tape), Notes: final.Notes}
	b, _ := json.Marshal(o)
	if err := os.WriteFile(job.Out, b, 0o644); err != nil {
		emit("ERROR", map[string]string{"error": err.Error()})
		return
	}
	emit("MIN", map[string]any{"ok": true, "execs": execs, "orig": len(rf.Tape), "len": len(tape), "nonzero": nz, "steps": final.Steps})
}
